// further commands (grown per property)
use crate::{fen_of, move_attrs, opt_piece_int, piece_int, state_of};
use weechess_core::{Color, Move, MoveQuery, Piece, PieceIndex, Side, Square, State};

fn piece_of_int(i: u8) -> Piece {
    match i {
        1 => Piece::Pawn,
        2 => Piece::Knight,
        3 => Piece::Bishop,
        4 => Piece::Rook,
        5 => Piece::Queen,
        6 => Piece::King,
        _ => Piece::None,
    }
}

fn color_of_int(i: u8) -> Color {
    if i == 0 {
        Color::White
    } else {
        Color::Black
    }
}

fn sq(i: u8) -> Square {
    Square::try_from(i).unwrap()
}

fn fields(m: &Move) -> [u64; 10] {
    let o: u8 = m.origin().into();
    let d: u8 = m.destination().into();
    [
        m.as_raw() as u64,
        o as u64,
        d as u64,
        opt_piece_int(m.promotion()) as u64,
        piece_int(m.piece()) as u64,
        if m.color() == Color::White { 0 } else { 1 },
        opt_piece_int(m.capture()) as u64,
        m.is_en_passant() as u64,
        match m.castle_side() {
            None => 0,
            Some(Side::King) => 1,
            Some(Side::Queen) => 2,
        },
        m.is_double_pawn() as u64,
    ]
}

fn checksum(ms: &[Move]) -> u64 {
    let md: u64 = 1000000007;
    let mut acc: u64 = 17;
    for m in ms {
        for x in fields(m) {
            acc = (acc * 131 + (x % md) + 7) % md;
        }
    }
    acc
}

fn build(c: Color, p: Piece, o: Square, d: Square, cap: u8, pro: u8) -> Move {
    let pi = PieceIndex::new(c, p);
    if cap == 0 && pro == 0 {
        Move::by_moving(pi, o, d)
    } else if pro == 0 {
        Move::by_capturing(pi, o, d, piece_of_int(cap))
    } else if cap == 0 {
        Move::by_promoting(pi, o, d, piece_of_int(pro))
    } else {
        Move::by_capture_promoting(pi, o, d, piece_of_int(cap), piece_of_int(pro))
    }
}

pub fn run(cmd: &str, args: &[&str]) -> String {
    match (cmd, args) {
        ("moveblock", [c, p, o]) => {
            let c = color_of_int(c.parse().unwrap());
            let p = piece_of_int(p.parse().unwrap());
            let o = sq(o.parse().unwrap());
            let mut ms: Vec<Move> = Vec::new();
            for d in 0..64u8 {
                for cap in [0u8, 1, 2, 3, 4, 5] {
                    for pro in [0u8, 2, 3, 4, 5] {
                        ms.push(build(c, p, o, sq(d), cap, pro));
                    }
                }
                ms.push(Move::by_en_passant(PieceIndex::new(c, p), o, sq(d)));
            }
            for side in [Side::King, Side::Queen] {
                ms.push(Move::by_castling(c, side));
            }
            // equality is attribute equality, and serialisation round-trips
            let mut bad = 0usize;
            for m in ms.iter() {
                let mut buf = Vec::new();
                ciborium::into_writer(m, &mut buf).unwrap();
                let back: Move = ciborium::from_reader(&buf[..]).unwrap();
                if back != *m || fields(&back) != fields(m) {
                    bad += 1;
                }
            }
            for i in 0..ms.len() {
                // neighbours in the enumeration differ in some attribute, so they must be unequal
                if i + 1 < ms.len() && (ms[i] == ms[i + 1]) != (fields(&ms[i])[1..] == fields(&ms[i + 1])[1..]) {
                    bad += 1;
                }
            }
            format!("{} {} {}", ms.len(), checksum(&ms), bad)
        }
        ("moveone", [c, p, o, d, cap, pro]) => {
            let m = build(
                color_of_int(c.parse().unwrap()),
                piece_of_int(p.parse().unwrap()),
                sq(o.parse().unwrap()),
                sq(d.parse().unwrap()),
                cap.parse().unwrap(),
                pro.parse().unwrap(),
            );
            move_attrs(&m)
        }
        ("resolve", [fen, f, t, pr]) => match state_of(fen) {
            None => "badfen".into(),
            Some(s) => {
                let mut q = MoveQuery::new();
                q.set_origin(sq(f.parse().unwrap()));
                q.set_destination(sq(t.parse().unwrap()));
                let pr: u8 = pr.parse().unwrap();
                if pr != 0 {
                    q.set_promotion(piece_of_int(pr));
                }
                let before = fen_of(&s);
                let r = State::by_performing_moves(&s, &[q]);
                if fen_of(&s) != before {
                    return "input-mutated".into();
                }
                match r {
                    Ok(n) => format!("ok {}", fen_of(&n)),
                    Err(weechess_core::MovePerformError::AmbiguousMove) => "ambiguous".into(),
                    Err(weechess_core::MovePerformError::UnknownMove) => "unknown".into(),
                    Err(weechess_core::MovePerformError::IllegalEnPassant) => "illegal-ep".into(),
                }
            }
        },
        ("tableops", [nt, nb, ops]) => {
            use weechess_engine::searcher::verif::TableProbe;
            assert!(usize::BITS == 64);
            let t = TableProbe::new(nt.parse().unwrap(), nb.parse().unwrap());
            let mut out: Vec<String> = Vec::new();
            for op in ops.split(',') {
                let a: Vec<&str> = op.split(':').collect();
                match a[0] {
                    "i" => {
                        t.insert(
                            a[1].parse().unwrap(),
                            (a[2].parse().unwrap(), a[3].parse().unwrap(), a[4].parse().unwrap(), a[5].parse().unwrap(), a[6].parse().unwrap()),
                        );
                        out.push(format!("n{}", t.entries()));
                    }
                    _ => match t.find(a[1].parse().unwrap()) {
                        None => out.push("-".into()),
                        Some(e) => out.push(format!("{}:{}:{}:{}:{}", e.0, e.1, e.2, e.3, e.4)),
                    },
                }
            }
            format!("{} max={}", out.join(","), t.max_entries())
        }
        ("tableconc", [nt, nb, threads, seed, nops, nkeys]) => {
            // threads hammer one real table; every value carries (thread, op index, key tag) so that a lookup answer can be
            // attributed: it must be a value some thread inserted under exactly that key, and after the threads have joined
            // the value of every key must be the LAST insert of that key by one of the threads.
            use weechess_engine::searcher::verif::TableProbe;
            use std::sync::Arc;
            let nthreads: usize = threads.parse().unwrap();
            let nops: usize = nops.parse().unwrap();
            let nkeys: u64 = nkeys.parse().unwrap();
            let seed: u64 = seed.parse().unwrap();
            let t = Arc::new(TableProbe::new(nt.parse().unwrap(), nb.parse().unwrap()));
            let cap = t.max_entries();
            let keyof = move |i: u64| -> u64 { i.wrapping_mul(0x9E3779B97F4A7C15) ^ (seed << 7) };
            let mut handles = Vec::new();
            for th in 0..nthreads {
                let t = t.clone();
                handles.push(std::thread::spawn(move || {
                    let mut x: u64 = seed ^ (th as u64 + 1).wrapping_mul(0x2545F4914F6CDD1D);
                    let mut bad: Vec<String> = Vec::new();
                    let mut last: std::collections::HashMap<u64, usize> = std::collections::HashMap::new();
                    for i in 0..nops {
                        x ^= x << 13; x ^= x >> 7; x ^= x << 17;
                        let ki = x % nkeys;
                        let k = keyof(ki);
                        if (x >> 40) % 2 == 0 {
                            t.insert(k, (0, (th * 1000003 + i) as u32, ki as usize, th, i as i32));
                            last.insert(ki, i);
                        } else if let Some(e) = t.find(k) {
                            if e.2 as u64 != ki { bad.push(format!("find({}) returned an entry stored under key tag {}", ki, e.2)); }
                            if e.1 != (e.3 * 1000003 + e.4 as usize) as u32 { bad.push(format!("torn entry for key {}", ki)); }
                        }
                        if t.entries() > cap { bad.push("entries above capacity".into()); }
                    }
                    (bad, last)
                }));
            }
            let mut bad: Vec<String> = Vec::new();
            let mut lasts: Vec<std::collections::HashMap<u64, usize>> = Vec::new();
            for h in handles {
                let (b, l) = h.join().unwrap();
                bad.extend(b);
                lasts.push(l);
            }
            let mut present = 0usize;
            for ki in 0..nkeys {
                if let Some(e) = t.find(keyof(ki)) {
                    present += 1;
                    if e.2 as u64 != ki { bad.push(format!("final find({}) has key tag {}", ki, e.2)); }
                    match lasts.get(e.3).and_then(|m| m.get(&ki)) {
                        Some(i) if *i as i32 == e.4 => {}
                        _ => bad.push(format!("final value of key {} is not the last insert of thread {}", ki, e.3)),
                    }
                }
            }
            if t.entries() > cap || present > t.entries() { bad.push(format!("count: present {} entries {} cap {}", present, t.entries(), cap)); }
            if bad.is_empty() { format!("ok present={} entries={}", present, t.entries()) } else { format!("BAD {}", bad[..bad.len().min(3)].join("; ")) }
        }
        ("tablerace", [nb, threads, rounds, seed]) => {
            // no-displacement regime: at most 8 distinct keys ever go to one bucket, so nothing may be displaced: after the threads
            // have joined EVERY key must be retrievable with the last value its thread stored, and entries() must equal the number
            // of distinct keys. The threads meet at a barrier before each round and then insert DIFFERENT keys of the SAME bucket
            // at the same moment (the interleaving a check-then-act split inside insert needs).
            use weechess_engine::searcher::verif::TableProbe;
            use std::sync::{Arc, Barrier};
            let nb: u64 = nb.parse().unwrap();
            let nthreads: usize = threads.parse::<usize>().unwrap().min(8);
            let rounds: u64 = rounds.parse().unwrap();
            let seed: u64 = seed.parse().unwrap();
            let t = Arc::new(TableProbe::new(1, nb as usize));
            let barrier = Arc::new(Barrier::new(nthreads));
            let mut handles = Vec::new();
            for th in 0..nthreads {
                let t = t.clone();
                let barrier = barrier.clone();
                handles.push(std::thread::spawn(move || {
                    let mut keys: Vec<(u64, i32)> = Vec::new();
                    for r in 0..rounds {
                        let bucket = (r.wrapping_mul(7919).wrapping_add(seed)) % nb;
                        // round r uses bucket `bucket` once per `nb` rounds at most when rounds <= nb
                        let k = bucket + nb * (th as u64 + 1 + 8 * (r / nb));
                        barrier.wait();
                        t.insert(k, (0, (th * 1000003) as u32 + r as u32, r as usize, th, r as i32));
                        if r % 3 == 0 { t.insert(k, (2, (th * 1000003) as u32 + r as u32, r as usize, th, -(r as i32) - 1)); keys.push((k, -(r as i32) - 1)); } else { keys.push((k, r as i32)); }
                    }
                    keys
                }));
            }
            let mut bad: Vec<String> = Vec::new();
            let mut total = 0usize;
            for h in handles {
                for (k, v) in h.join().unwrap() {
                    total += 1;
                    match t.find(k) {
                        None => bad.push(format!("key {} (bucket {}) is gone although its bucket never held more than {} keys", k, k % nb, nthreads)),
                        Some(e) if e.4 != v => bad.push(format!("key {} holds {} instead of the last value stored {}", k, e.4, v)),
                        _ => {}
                    }
                }
            }
            if t.entries() != total { bad.push(format!("entries() = {} but {} distinct keys were stored and none can have been displaced", t.entries(), total)); }
            if bad.is_empty() { format!("ok keys={} entries={}", total, t.entries()) } else { format!("BAD {} problems; {}", bad.len(), bad[..bad.len().min(3)].join("; ")) }
        }
        ("tablehammer", [nb, threads, nkeys, nops, seed]) => {
            // displacement regime: more keys than slots on one tiny table, every thread stores and looks up all the time, so
            // full-bucket replacement happens constantly. Every value carries the tag of the key it was stored under: a lookup
            // must never return a value stored under ANOTHER key (a check-then-act split inside insert would write one).
            use weechess_engine::searcher::verif::TableProbe;
            use std::sync::{Arc, Barrier};
            let nb: usize = nb.parse().unwrap();
            let nthreads: usize = threads.parse().unwrap();
            let nkeys: u64 = nkeys.parse().unwrap();
            let nops: usize = nops.parse().unwrap();
            let seed: u64 = seed.parse().unwrap();
            let t = Arc::new(TableProbe::new(1, nb));
            let cap = t.max_entries();
            let barrier = Arc::new(Barrier::new(nthreads));
            let keyof = move |i: u64| -> u64 { (i + 1).wrapping_mul(0x9E3779B97F4A7C15) ^ (seed << 9) };
            let mut handles = Vec::new();
            for th in 0..nthreads {
                let t = t.clone();
                let barrier = barrier.clone();
                handles.push(std::thread::spawn(move || {
                    let mut x: u64 = seed ^ (th as u64 + 1).wrapping_mul(0x2545F4914F6CDD1D);
                    let mut bad: Vec<String> = Vec::new();
                    barrier.wait();
                    for i in 0..nops {
                        x ^= x << 13; x ^= x >> 7; x ^= x << 17;
                        let ki = x % nkeys;
                        let k = keyof(ki);
                        if (x >> 40) % 3 != 0 {
                            t.insert(k, (((x >> 50) % 3) as u8, ((x >> 20) & 0xfffff) as u32, ki as usize, th, i as i32));
                        } else if let Some(e) = t.find(k) {
                            if e.2 as u64 != ki && bad.len() < 3 { bad.push(format!("find(key #{}) returned a value stored under key #{}", ki, e.2)); }
                        }
                    }
                    if t.entries() > cap { bad.push(format!("entries {} above capacity {}", t.entries(), cap)); }
                    bad
                }));
            }
            let mut bad: Vec<String> = Vec::new();
            for h in handles { bad.extend(h.join().unwrap()); }
            let mut present = 0usize;
            for ki in 0..nkeys {
                if let Some(e) = t.find(keyof(ki)) {
                    present += 1;
                    if e.2 as u64 != ki { bad.push(format!("final find(key #{}) holds a value stored under key #{}", ki, e.2)); }
                }
            }
            if present > cap || t.entries() > cap { bad.push(format!("count: present {} entries {} capacity {}", present, t.entries(), cap)); }
            if bad.is_empty() { format!("ok present={} entries={}", present, t.entries()) } else { format!("BAD {} problems; {}", bad.len(), bad[..bad.len().min(3)].join("; ")) }
        }
        ("eval", [fen, plies]) => match state_of(fen) {
            None => "badfen".into(),
            Some(s) => {
                let ev = weechess_engine::eval::Evaluator::default();
                let mut out = Vec::new();
                for p in plies.split(',') {
                    let p: usize = p.parse().unwrap();
                    let w: i32 = ev.evaluate(&s, Color::White, p).into();
                    let b: i32 = ev.evaluate(&s, Color::Black, p).into();
                    out.push(format!("{}/{}", w, b));
                }
                out.join(",")
            }
        },
        ("estimate", [fen]) => match state_of(fen) {
            None => "badfen".into(),
            Some(s) => {
                let ev = weechess_engine::eval::Evaluator::default();
                let mut buf = Vec::new();
                weechess_core::MoveGenerator::compute_psuedo_legal_moves_into(&s, &mut buf);
                let mut l: Vec<String> = buf.iter().map(|m| { let e: i32 = ev.estimate(&s, m).into(); format!("{}:{}", m.as_raw(), e) }).collect();
                l.sort();
                l.join(",")
            }
        },
        ("attacks", [fen]) => match state_of(fen) {
            None => "badfen".into(),
            Some(s) => {
                let b = s.board();
                let v: Vec<u64> = vec![
                    b.colored_attacks(Color::White).into(), b.colored_attacks(Color::Black).into(),
                    b.colored_pawn_attacks(Color::White).into(), b.colored_pawn_attacks(Color::Black).into(),
                ];
                format!("{},{},{},{},{},{},{}", v[0], v[1], v[2], v[3], b.is_check(Color::White) as u8, b.is_check(Color::Black) as u8, s.is_check() as u8)
            }
        },
        ("attackops", [fen, ops]) => match state_of(fen) {
            None => "badfen".into(),
            Some(s) => {
                // one Board object and a saved clone; queries and clones in the given order
                let mut cur = s.board().clone();
                let mut saved = s.board().clone();
                let mut out: Vec<String> = Vec::new();
                for op in ops.split(',') {
                    match op {
                        "aw" => { let x: u64 = cur.colored_attacks(Color::White).into(); out.push(x.to_string()) }
                        "ab" => { let x: u64 = cur.colored_attacks(Color::Black).into(); out.push(x.to_string()) }
                        "pw" => { let x: u64 = cur.colored_pawn_attacks(Color::White).into(); out.push(x.to_string()) }
                        "pb" => { let x: u64 = cur.colored_pawn_attacks(Color::Black).into(); out.push(x.to_string()) }
                        "cw" => out.push((cur.is_check(Color::White) as u8).to_string()),
                        "cb" => out.push((cur.is_check(Color::Black) as u8).to_string()),
                        "clone" => { saved = cur.clone(); }
                        _ => { std::mem::swap(&mut cur, &mut saved); }
                    }
                }
                out.join(",")
            }
        },
        ("fensame", [fen]) => match state_of(&crate::unescape_pub(fen)) {
            None => "err".into(),
            Some(s) => {
                // write, read back: same state, same FEN again, same moves, hash and evaluation
                let w = fen_of(&s);
                match state_of(&w) {
                    None => format!("reread-failed {}", w),
                    Some(s2) => {
                        use rand::SeedableRng;
                        let mut rng = rand_chacha::ChaCha8Rng::seed_from_u64(7);
                        let h = weechess_core::ZobristHasher::with(&mut rng);
                        let ev = weechess_engine::eval::Evaluator::default();
                        let g1: Vec<u32> = weechess_core::MoveGenerator::compute_legal_moves(&s).moves().iter().map(|m| m.0.as_raw()).collect();
                        let g2: Vec<u32> = weechess_core::MoveGenerator::compute_legal_moves(&s2).moves().iter().map(|m| m.0.as_raw()).collect();
                        let has_king = |st: &State| st.board().piece_occupancy(PieceIndex::new(st.turn_to_move(), Piece::King)).any();
                        let e_same = if has_king(&s) { ev.evaluate(&s, Color::White, 3) == ev.evaluate(&s2, Color::White, 3) } else { true };
                        let ok = fen_of(&s2) == w && g1 == g2 && h.hash(&s) == h.hash(&s2) && e_same;
                        format!("{} {}", if ok { "same" } else { "DIFFERENT" }, w)
                    }
                }
            }
        },
        ("san", [fen, text]) => match state_of(fen) {
            None => "badfen".into(),
            Some(s) => {
                let text = crate::unescape_pub(text);
                match weechess_core::notation::try_from_notation::<MoveQuery, weechess_core::notation::San>(&text) {
                    Err(_) => "err".into(),
                    Ok(q) => {
                        let set = weechess_core::MoveGenerator::compute_legal_moves(&s);
                        let mut l: Vec<String> = set.filter(q).map(|r| {
                            let o: u8 = r.0.origin().into(); let d: u8 = r.0.destination().into();
                            format!("{}/{}/{}", o, d, opt_piece_int(r.0.promotion())) }).collect();
                        l.sort();
                        format!("ok {}", l.join(";"))
                    }
                }
            }
        },
        ("lan", [fen]) => match state_of(fen) {
            // coordinate text of every legal move and what that text selects again
            None => "badfen".into(),
            Some(s) => {
                let set = weechess_core::MoveGenerator::compute_legal_moves(&s);
                let mut l: Vec<String> = Vec::new();
                for r in set.moves() {
                    let text = weechess_core::notation::into_notation::<_, weechess_core::notation::lan::Lan>(&r.0).to_string();
                    // the UCI way of turning the text back into a query
                    let back = (|| {
                        let o = Square::try_from(text.get(0..2)?).ok()?;
                        let d = Square::try_from(text.get(2..4)?).ok()?;
                        let mut q = MoveQuery::new();
                        q.set_origin(o); q.set_destination(d);
                        if let Some(p) = text.chars().nth(4) {
                            q.set_promotion(match p { 'q' => Piece::Queen, 'r' => Piece::Rook, 'b' => Piece::Bishop, 'n' => Piece::Knight, _ => return None });
                        }
                        State::by_performing_moves(&s, &[q]).ok()
                    })();
                    // compare by FEN: `State ==` also compares the OnceCell attack caches, which depend on what was queried
                    let same = back.map(|n| fen_of(&n) == fen_of(&r.1)).unwrap_or(false);
                    let o: u8 = r.0.origin().into(); let d: u8 = r.0.destination().into();
                    l.push(format!("{}/{}/{}>{}>{}", o, d, opt_piece_int(r.0.promotion()), text, same as u8));
                }
                l.sort();
                l.join(";")
            }
        },
        ("search", [hseed, seed, depth, cancel, workers, nt, nb, hist, fens]) => {
            // chain of searches on one small artifact through the real analyze_iterative (synchronous hook)
            use rand::SeedableRng;
            use weechess_engine::searcher::{verif, StatusEvent};
            let mut r0 = rand_chacha::ChaCha8Rng::seed_from_u64(hseed.parse().unwrap());
            let mut artifact = Some(verif::small_artifact(&mut r0, nt.parse().unwrap(), nb.parse().unwrap()));
            if *hist != "-" {
                for h in hist.split('|') {
                    if let Some(st) = state_of(h) { verif::record_history(artifact.as_mut().unwrap(), &st); }
                }
            }
            let depth: Option<usize> = if *depth == "-" { None } else { Some(depth.parse().unwrap()) };
            let cancel: Option<usize> = if *cancel == "-" { None } else { Some(cancel.parse().unwrap()) };
            let workers: usize = workers.parse().unwrap();
            let seed: u64 = seed.parse().unwrap();
            let mut outs: Vec<String> = Vec::new();
            let tracing = std::env::var("WV_TRACE").is_ok();
            for (i, fen) in fens.split('|').enumerate() {
                // "fen@d" overrides the depth limit for this search of the chain
                let (fen, depth) = match fen.rsplit_once('@') { Some((f, d)) => (f, Some(d.parse().unwrap())), None => (fen, depth) };
                let Some(st) = state_of(fen) else { outs.push("badfen".into()); continue };
                let mut evs: Vec<String> = Vec::new();
                verif::set_tracing(true);
                let (art, nodes) = verif::analyze_sync(st, seed.wrapping_add(i as u64), depth, Some(workers), artifact.take(), cancel, &mut |e| match e {
                    StatusEvent::BestMove { line, evaluation } => {
                        let ev: i32 = evaluation.into();
                        evs.push(format!("B{}:{}", ev, line.iter().map(|m| m.as_raw().to_string()).collect::<Vec<_>>().join(",")));
                    }
                    StatusEvent::Progress { depth, nodes_searched, .. } => evs.push(format!("P{}:{}", depth, nodes_searched)),
                    StatusEvent::Warning { .. } => {}
                });
                artifact = Some(art);
                let tr = verif::take_trace();
                verif::set_tracing(false);
                // order-dependent checksum of every node entry (hash, depth, max depth, window)
                let md: u64 = 1000000007;
                let mut acc: u64 = 17;
                for t in tr.iter() {
                    for x in [t.0 % md, t.1 as u64 % md, t.2 as u64 % md, (t.3 as i64 + 20000) as u64, (t.4 as i64 + 20000) as u64] {
                        acc = (acc * 131 + x + 7) % md;
                    }
                }
                if tracing {
                    evs.push(format!("TRACE[{}]", tr.iter().map(|t| format!("{}:{}:{}:{}:{}", t.0, t.1, t.2, t.3, t.4)).collect::<Vec<_>>().join(" ")));
                }
                outs.push(format!("{} #{} t{}", evs.join(" "), nodes, acc));
            }
            outs.join(" || ")
        }
        ("node", [hseed, jseed, md, cd, ce, alpha, beta, nt, nb, hist, pre, fen]) => {
            // ONE call of the real analyze_recursive with arbitrary parameters against a small artifact; `pre` = table entries
            // stored beforehand ("key:kind:move:depth:maxdepth:eval;..." with key "@" = the hash of the searched position)
            use rand::SeedableRng;
            use weechess_engine::searcher::verif;
            let Some(st) = state_of(fen) else { return "badfen".into() };
            let mut r0 = rand_chacha::ChaCha8Rng::seed_from_u64(hseed.parse().unwrap());
            let mut artifact = verif::small_artifact(&mut r0, nt.parse().unwrap(), nb.parse().unwrap());
            if *hist != "-" {
                for h in hist.split('|') {
                    if let Some(hs) = state_of(h) { verif::record_history(&mut artifact, &hs); }
                }
            }
            let root = verif::artifact_hash(&artifact, &st);
            if *pre != "-" {
                for e in pre.split(';') {
                    let p: Vec<&str> = e.split(':').collect();
                    let key: u64 = if p[0] == "@" { root } else { p[0].parse().unwrap() };
                    verif::artifact_insert(&artifact, key, (p[1].parse().unwrap(), p[2].parse().unwrap(), p[3].parse().unwrap(), p[4].parse().unwrap(), p[5].parse().unwrap()));
                }
            }
            let r = verif::analyze_node(&artifact, &st, md.parse().unwrap(), cd.parse().unwrap(), ce.parse().unwrap(), alpha.parse().unwrap(), beta.parse().unwrap(), jseed.parse().unwrap());
            let mut dump = verif::artifact_dump(&artifact);
            dump.sort();
            let md7: u64 = 1000000007;
            let mut acc: u64 = 17;
            for (k, e) in dump.iter() {
                for x in [k % md7, e.0 as u64, e.1 as u64 % md7, e.2 as u64 % md7, e.3 as u64 % md7, (e.4 as i64 + 20000) as u64] {
                    acc = (acc * 131 + x + 7) % md7;
                }
            }
            match r {
                Some((v, n)) => format!("V{} #{} T{}:{}", v, n, dump.len(), acc),
                None => "interrupted".into(),
            }
        }
        ("msearch", [hseed, seed, depth, workers, nt, nb, hist, sched, fens]) => {
            // several workers under a forced schedule (yield-point hook): events, table checksum, schedule entries used
            use rand::SeedableRng;
            use weechess_engine::searcher::{verif, StatusEvent};
            let mut r0 = rand_chacha::ChaCha8Rng::seed_from_u64(hseed.parse().unwrap());
            let mut artifact = Some(verif::small_artifact(&mut r0, nt.parse().unwrap(), nb.parse().unwrap()));
            if *hist != "-" {
                for h in hist.split('|') {
                    if let Some(st) = state_of(h) { verif::record_history(artifact.as_mut().unwrap(), &st); }
                }
            }
            let depth: usize = depth.parse().unwrap();
            let workers: usize = workers.parse().unwrap();
            let seed: u64 = seed.parse().unwrap();
            let schedule: Vec<u64> = if *sched == "-" { Vec::new() } else { sched.split(',').map(|x| x.parse().unwrap()).collect() };
            let mut outs: Vec<String> = Vec::new();
            for (i, fen) in fens.split('|').enumerate() {
                let Some(st) = state_of(fen) else { outs.push("badfen".into()); continue };
                let mut evs: Vec<String> = Vec::new();
                verif::set_schedule(Some(schedule.clone()));
                let (art, _nodes) = verif::analyze_sync(st, seed.wrapping_add(i as u64), Some(depth), Some(workers), artifact.take(), None, &mut |e| match e {
                    StatusEvent::BestMove { line, evaluation } => {
                        let ev: i32 = evaluation.into();
                        evs.push(format!("B{}:{}", ev, line.iter().map(|m| m.as_raw().to_string()).collect::<Vec<_>>().join(",")));
                    }
                    StatusEvent::Progress { depth, nodes_searched, .. } => evs.push(format!("P{}:{}", depth, nodes_searched)),
                    StatusEvent::Warning { .. } => {}
                });
                let (used, _served) = verif::schedule_progress();
                verif::set_schedule(None);
                let mut dump = verif::artifact_dump(&art);
                dump.sort();
                let md: u64 = 1000000007;
                let mut acc: u64 = 17;
                for (k, e) in dump.iter() {
                    for x in [k % md, e.0 as u64, e.1 as u64 % md, e.2 as u64 % md, e.3 as u64 % md, (e.4 as i64 + 20000) as u64] {
                        acc = (acc * 131 + x + 7) % md;
                    }
                }
                artifact = Some(art);
                outs.push(format!("{} T{}:{} S{}", evs.join(" "), dump.len(), acc, used));
            }
            outs.join(" || ")
        }
        ("stoptest", [seed, delay_ms, mode, fen]) => {
            // the public entry point on its own threads: send Stop after a delay (or drop the receiver / stop twice),
            // and report how long the join took
            use rand::SeedableRng;
            use weechess_engine::searcher::{verif, ControlEvent, Searcher, StatusEvent};
            let Some(st) = state_of(fen) else { return "badfen".into() };
            let mut r0 = rand_chacha::ChaCha8Rng::seed_from_u64(99);
            let artifact = verif::small_artifact(&mut r0, 8, 4096);
            let depth: Option<usize> = if mode.contains("depth3") { Some(3) } else { None };
            let (handle, tx, rx) = Searcher::new().analyze(st, seed.parse().unwrap(), weechess_engine::eval::Evaluator::default(), depth, Some(artifact));
            let delay: u64 = delay_ms.parse().unwrap();
            let mut rx = Some(rx);
            if mode.contains("drop") { rx = None; }
            std::thread::sleep(std::time::Duration::from_millis(delay));
            let t0 = std::time::Instant::now();
            if !mode.contains("nostop") { let _ = tx.send(ControlEvent::Stop); }
            if mode.contains("twice") { let _ = tx.send(ControlEvent::Stop); }
            // join with a watchdog
            let (dtx, drx) = std::sync::mpsc::channel();
            std::thread::spawn(move || { let r = handle.join(); let _ = dtx.send(r.is_ok()); });
            let res = drx.recv_timeout(std::time::Duration::from_secs(45));
            let ms = t0.elapsed().as_millis();
            let _ = tx.send(ControlEvent::Stop);
            let mut best = 0usize;
            if let Some(rx) = rx { while let Ok(e) = rx.try_recv() { if let StatusEvent::BestMove { .. } = e { best += 1; } } }
            match res {
                Ok(true) => format!("joined {} best={}", ms, best),
                Ok(false) => "search-thread-panicked".into(),
                Err(_) => format!("NOT-JOINED-after-45s best={}", best),
            }
        }
        ("book", [fen]) => match state_of(fen) {
            None => "badfen".into(),
            Some(s) => {
                let book = weechess_engine::book::OpeningBook::try_default().unwrap();
                match book.lookup(&s) {
                    None => "none".into(),
                    Some(ms) => {
                        let mut l: Vec<String> = ms.iter().map(|m| { let o: u8 = m.origin().into(); let d: u8 = m.destination().into(); format!("{}/{}/{}", o, d, opt_piece_int(m.promotion())) }).collect();
                        l.sort();
                        l.join(";")
                    }
                }
            }
        },
        ("analyze", [seed, depth, fen]) => {
            // the PUBLIC entry point (own threads, default table, worker count chosen by the engine); events only
            use weechess_engine::searcher::{Searcher, StatusEvent};
            let Some(st) = state_of(fen) else { return "badfen".into() };
            let (handle, _tx, rx) = Searcher::new().analyze(st, seed.parse().unwrap(), weechess_engine::eval::Evaluator::default(), Some(depth.parse().unwrap()), None);
            let mut evs: Vec<String> = Vec::new();
            while let Ok(e) = rx.recv() {
                match e {
                    StatusEvent::BestMove { line, evaluation } => {
                        let ev: i32 = evaluation.into();
                        evs.push(format!("B{}:{}", ev, line.iter().map(|m| m.as_raw().to_string()).collect::<Vec<_>>().join(",")));
                    }
                    StatusEvent::Progress { depth, nodes_searched, .. } => evs.push(format!("P{}:{}", depth, nodes_searched)),
                    StatusEvent::Warning { .. } => {}
                }
            }
            let _ = handle.join();
            evs.join(" ")
        }
        ("consts", []) => {
            // constants as the COMPILED code sees them (validates the translator's reading of the sources)
            use weechess_core::{Rank, File, CASTLE_CHECK_MASKS, CASTLE_DESTS, CASTLE_PATH_MASKS, FILE_MASKS, KING_ORIGINS, RANK_MASKS};
            let bb = |b: weechess_core::BitBoard| -> u64 { b.into() };
            let mut out: Vec<String> = Vec::new();
            out.push(format!("rank_masks={}", Rank::ALL.iter().map(|r| bb(RANK_MASKS[*r]).to_string()).collect::<Vec<_>>().join(",")));
            out.push(format!("file_masks={}", File::ALL.iter().map(|r| bb(FILE_MASKS[*r]).to_string()).collect::<Vec<_>>().join(",")));
            let sides = [Side::King, Side::Queen];
            let cols = [Color::White, Color::Black];
            out.push(format!("castle_path={}", sides.iter().flat_map(|s| cols.iter().map(move |c| bb(CASTLE_PATH_MASKS[*s][*c]).to_string())).collect::<Vec<_>>().join(",")));
            out.push(format!("castle_check={}", sides.iter().flat_map(|s| cols.iter().map(move |c| bb(CASTLE_CHECK_MASKS[*s][*c]).to_string())).collect::<Vec<_>>().join(",")));
            out.push(format!("king_origins={}", cols.iter().map(|c| { let x: u8 = KING_ORIGINS[*c].into(); x.to_string() }).collect::<Vec<_>>().join(",")));
            out.push(format!("castle_dests={}", cols.iter().flat_map(|c| sides.iter().map(move |s| { let x: u8 = CASTLE_DESTS[*c][*s].into(); x.to_string() })).collect::<Vec<_>>().join(",")));
            let w: Vec<String> = [Piece::None, Piece::Pawn, Piece::Knight, Piece::Bishop, Piece::Rook, Piece::Queen, Piece::King].iter().map(|p| format!("{}", weechess_engine::eval::PIECE_PAWN_WORTHS[*p])).collect();
            out.push(format!("worths={}", w.join(",")));
            let e = |x: weechess_engine::eval::Evaluation| -> i32 { x.into() };
            out.push(format!("eval={},{},{},{}", e(weechess_engine::eval::Evaluation::ONE_PAWN), e(weechess_engine::eval::Evaluation::POS_INF), e(weechess_engine::eval::Evaluation::NEG_INF), e(weechess_engine::eval::Evaluation::mate_in_ply(0))));
            out.push(format!("default_fen={}", weechess_core::notation::Fen::DEFAULT));
            out.join(";")
        }
        ("jitter", [seed, n]) => {
            use rand::{Rng, RngCore, SeedableRng};
            let mut rng = rand_chacha::ChaCha8Rng::seed_from_u64(seed.parse().unwrap());
            for _ in 0..1038 { rng.next_u64(); }
            let mut w = rand_chacha::ChaCha8Rng::seed_from_u64(rng.gen());
            (0..n.parse::<usize>().unwrap()).map(|_| w.gen_range(-10..=10).to_string()).collect::<Vec<_>>().join(",")
        }
        ("hashstream", [seed]) => {
            use rand::RngCore;
            use rand::SeedableRng;
            let mut rng = rand_chacha::ChaCha8Rng::seed_from_u64(seed.parse().unwrap());
            (0..1038).map(|_| rng.next_u64().to_string()).collect::<Vec<_>>().join(",")
        }
        ("hash", [seed, fen]) => match state_of(fen) {
            None => "badfen".into(),
            Some(s) => {
                use rand::SeedableRng;
                let mut rng = rand_chacha::ChaCha8Rng::seed_from_u64(seed.parse().unwrap());
                let h = weechess_core::ZobristHasher::with(&mut rng);
                h.hash(&s).to_string()
            }
        },
        _ => "unknown-command".into(),
    }
}
