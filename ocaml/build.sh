#!/bin/sh
# extract the Coq model to OCaml and build the model_run driver
set -e
# the extraction reads compiled .vo files: bring the model up to date first (full .vo build)
(cd /verif/coq && { { [ -f Makefile ] && [ Makefile -nt _CoqProject ]; } || coq_makefile -f _CoqProject -o Makefile > /dev/null; } && make -j16 model/Search.vo model/Conc.vo model/Uci.vo model/Book.vo model/Table.vo model/Notation.vo spec/Abs.vo spec/FenSpec.vo spec/SanSpec.vo spec/GameValue.vo > /verif/.model-make.log 2>&1) || { tail -20 /verif/.model-make.log; exit 1; }
mkdir -p /verif/ocaml/gen && cd /verif/ocaml/gen
rm -f *.ml *.mli *.cm* *.o
coqc -Q /verif/coq/gen WV -Q /verif/coq/model WV -Q /verif/coq/spec WV -Q /verif/coq/proofs WV -o /verif/ocaml/gen/Extract.vo /verif/coq/extract/Extract.v > /dev/null
cd /verif/ocaml
rm -rf _obuild && mkdir _obuild && cp gen/*.ml gen/*.mli model_run.ml _obuild/
cd _obuild
ocamlfind ocamlopt -O3 -w -a -c $(ocamlfind ocamldep -sort *.mli *.ml 2>/dev/null) 2>/dev/null || true
ocamlfind ocamlopt -w -a -o ../model_run $(ocamlfind ocamldep -sort *.ml) 2>&1 | grep -v "^$" | head -20
