#!/bin/sh
# extract the Coq model to OCaml and build the model_run driver
set -e
cd /verif/ocaml/gen
rm -f *.ml *.mli *.cm* *.o
coqc -Q /verif/coq/gen WV -Q /verif/coq/model WV -Q /verif/coq/spec WV -Q /verif/coq/proofs WV -o /verif/ocaml/gen/Extract.vo /verif/coq/extract/Extract.v > /dev/null
cd /verif/ocaml
rm -rf _obuild && mkdir _obuild && cp gen/*.ml gen/*.mli model_run.ml _obuild/
cd _obuild
ocamlfind ocamlopt -O3 -w -a -c $(ocamlfind ocamldep -sort *.mli *.ml 2>/dev/null) 2>/dev/null || true
ocamlfind ocamlopt -w -a -o ../model_run $(ocamlfind ocamldep -sort *.ml) 2>&1 | grep -v "^$" | head -20
