(* Driver for the extracted Coq model and specification: reads one case per line
   "<id>\t<cmd>\t<args...>", prints "<id>\t<result>".  Hand-written glue (trusted): conversions between
   OCaml ints/strings and the extracted N / code-point lists, an independent FEN reader into the
   rules-level position, and result formatting. *)
open BinNums
module L = Stdlib.List

(* ---------- int <-> N ---------- *)
let rec pos_of_int (n : int) : positive =
  if n = 1 then Coq_xH
  else if n land 1 = 0 then Coq_xO (pos_of_int (n lsr 1))
  else Coq_xI (pos_of_int (n lsr 1))
let n_of_int (n : int) : coq_N = if n = 0 then N0 else Npos (pos_of_int n)
let rec int_of_pos (p : positive) : int =
  match p with Coq_xH -> 1 | Coq_xO q -> 2 * int_of_pos q | Coq_xI q -> 2 * int_of_pos q + 1
let int_of_n (n : coq_N) : int = match n with N0 -> 0 | Npos p -> int_of_pos p

(* unsigned 64-bit decimal <-> N, without going through OCaml's 63-bit int *)
let n_of_dec (s : string) : coq_N =
  let acc = ref N0 in
  String.iter (fun c -> acc := BinNat.N.add (BinNat.N.mul !acc (n_of_int 10)) (n_of_int (Char.code c - 48))) s;
  !acc
let dec_of_n (n : coq_N) : string =
  if n = N0 then "0" else begin
    let b = Buffer.create 20 in
    let rec go n acc = if n = N0 then acc else
        let (q, r) = BinNat.N.div_eucl n (n_of_int 10) in go q (Char.chr (48 + int_of_n r) :: acc) in
    L.iter (Buffer.add_char b) (go n []); Buffer.contents b end

let rec nat_of_int (n : int) : Datatypes.nat = if n = 0 then Datatypes.O else Datatypes.S (nat_of_int (n - 1))

(* ---------- UTF-8 <-> code points ---------- *)
let codepoints (s : string) : coq_N list =
  let n = String.length s in
  let rec go i acc =
    if i >= n then L.rev acc else
    let c = Char.code s.[i] in
    let b k = Char.code s.[i + k] land 0x3f in
    if c < 0x80 then go (i + 1) (n_of_int c :: acc)
    else if c < 0xe0 then go (i + 2) (n_of_int (((c land 0x1f) lsl 6) lor b 1) :: acc)
    else if c < 0xf0 then go (i + 3) (n_of_int (((c land 0x0f) lsl 12) lor (b 1 lsl 6) lor b 2) :: acc)
    else go (i + 4) (n_of_int (((c land 0x07) lsl 18) lor (b 1 lsl 12) lor (b 2 lsl 6) lor b 3) :: acc) in
  go 0 []
let string_of_cps (l : coq_N list) : string =
  let b = Buffer.create 64 in
  L.iter (fun n -> Buffer.add_utf_8_uchar b (Uchar.of_int (int_of_n n))) l;
  Buffer.contents b
(* args may contain escapes \uXXXX.. as "\\x{HEX}" for non-printing characters *)
let unescape (s : string) : string =
  let b = Buffer.create (String.length s) in
  let n = String.length s in
  let rec go i =
    if i >= n then () else
    if i + 2 < n && s.[i] = '\\' && s.[i+1] = 'x' && s.[i+2] = '{' then begin
      let j = String.index_from s i '}' in
      let cp = int_of_string ("0x" ^ String.sub s (i + 3) (j - i - 3)) in
      Buffer.add_utf_8_uchar b (Uchar.of_int cp); go (j + 1) end
    else begin Buffer.add_char b s.[i]; go (i + 1) end in
  go 0; Buffer.contents b

(* ---------- model helpers ---------- *)
let model_state (fen : string) : Board.state option =
  match Text.fen_read (codepoints fen) with
  | Text.Ok s -> Some s
  | _ -> None
let model_fen (s : Board.state) : string = string_of_cps (Text.fen_write s)

let piece_int (p : Types.piece) : int = int_of_n (Types.piece_to_N p)
let opt_piece_int = function Some p -> piece_int p | None -> 0
let bool_int b = if b then 1 else 0

let move_attrs (m : coq_N) : string =
  Printf.sprintf "%d/%d/%d/%d/%d/%d/%d/%d/%d/%d" (int_of_n m)
    (int_of_n (MoveEnc.m_origin m)) (int_of_n (MoveEnc.m_dest m)) (opt_piece_int (MoveEnc.m_promotion m))
    (piece_int (MoveEnc.m_piece m)) (match MoveEnc.m_color m with Types.White -> 0 | Types.Black -> 1)
    (opt_piece_int (MoveEnc.m_capture m)) (bool_int (MoveEnc.m_is_ep m))
    (match MoveEnc.m_castle_side m with None -> 0 | Some true -> 1 | Some false -> 2)
    (bool_int (MoveEnc.m_is_double m))

(* ---------- independent FEN reader into the rules-level position ---------- *)
let spec_pos (fen : string) : Rules.pos option =
  match String.split_on_char ' ' fen with
  | [pl; tu; ca; ep; h; f] ->
    let arr = Array.make 64 None in
    let ranks = String.split_on_char '/' pl in
    if L.length ranks <> 8 then None else begin
      L.iteri (fun i row ->
        let r = 7 - i in
        let file = ref 0 in
        String.iter (fun c ->
          if c >= '1' && c <= '8' then file := !file + (Char.code c - 48)
          else begin
            let col = if Char.uppercase_ascii c = c then Types.White else Types.Black in
            let k = match Char.uppercase_ascii c with
              | 'P' -> Types.Pawn | 'N' -> Types.Knight | 'B' -> Types.Bishop
              | 'R' -> Types.Rook | 'Q' -> Types.Queen | 'K' -> Types.King | _ -> Types.PNone in
            if !file < 8 then arr.(r * 8 + !file) <- Some (col, k);
            incr file end) row) ranks;
      let at s = let i = int_of_n s in if i < 64 then arr.(i) else None in
      let turn = if tu = "w" then Types.White else Types.Black in
      let right c side = String.contains ca
          (match c, side with Types.White, true -> 'K' | Types.White, false -> 'Q'
                            | Types.Black, true -> 'k' | Types.Black, false -> 'q') in
      let epsq = if ep = "-" then None
        else Some (n_of_int ((Char.code ep.[1] - 49) * 8 + (Char.code ep.[0] - 97))) in
      Some { Rules.p_at = at; p_turn = turn; p_right = right; p_ep = epsq;
             p_half = n_of_dec h; p_full = n_of_dec f } end
  | _ -> None
let spec_fen (p : Rules.pos) : string = string_of_cps (FenSpec.write p)
(* materialise the closure-based position so that long playouts do not build closure chains *)
let freeze (p : Rules.pos) : Rules.pos =
  let arr = Array.init 64 (fun i -> p.Rules.p_at (n_of_int i)) in
  let r = [| p.Rules.p_right Types.White true; p.Rules.p_right Types.White false;
             p.Rules.p_right Types.Black true; p.Rules.p_right Types.Black false |] in
  { p with Rules.p_at = (fun s -> let i = int_of_n s in if i < 64 then arr.(i) else None);
           p_right = (fun c side -> r.((match c with Types.White -> 0 | Types.Black -> 2) + (if side then 0 else 1))) }

let spec_move_str (m : Rules.move) : string =
  Printf.sprintf "%d/%d/%d" (int_of_n m.Rules.mv_from) (int_of_n m.Rules.mv_to) (opt_piece_int m.Rules.mv_promo)

(* the attributes a move must report, computed from the rules-level position alone *)
let spec_attrs (p : Rules.pos) (m : Rules.move) : string =
  let f = int_of_n m.Rules.mv_from and t = int_of_n m.Rules.mv_to in
  let kind = match p.Rules.p_at m.Rules.mv_from with Some (_, k) -> k | None -> Types.PNone in
  let is_pawn = kind = Types.Pawn and is_king = kind = Types.King in
  let target = p.Rules.p_at m.Rules.mv_to in
  let ep = is_pawn && (f mod 8 <> t mod 8) && target = None in
  let cap = if ep then 1 else (match target with Some (_, k) -> piece_int k | None -> 0) in
  let castle = if is_king && abs (f mod 8 - t mod 8) = 2 then (if t mod 8 = 6 then 1 else 2) else 0 in
  let dbl = is_pawn && abs (f / 8 - t / 8) = 2 in
  Printf.sprintf "%d/%d/%d/%d/%d/%d/%d/%d/%d" f t (opt_piece_int m.Rules.mv_promo) (piece_int kind)
    (match p.Rules.p_turn with Types.White -> 0 | Types.Black -> 1) cap (bool_int ep) castle (bool_int dbl)

let checksum_moves (ms : coq_N list) : int =
  (* order-dependent polynomial checksum over (raw, accessors), identical in the Rust harness *)
  let md = 1000000007 in
  L.fold_left (fun acc m ->
    let fields = [int_of_n m; int_of_n (MoveEnc.m_origin m); int_of_n (MoveEnc.m_dest m);
                  opt_piece_int (MoveEnc.m_promotion m); piece_int (MoveEnc.m_piece m);
                  (match MoveEnc.m_color m with Types.White -> 0 | Types.Black -> 1);
                  opt_piece_int (MoveEnc.m_capture m); bool_int (MoveEnc.m_is_ep m);
                  (match MoveEnc.m_castle_side m with None -> 0 | Some true -> 1 | Some false -> 2);
                  bool_int (MoveEnc.m_is_double m)] in
    L.fold_left (fun a x -> (a * 131 + (x mod md) + 7) mod md) acc fields) 17 ms

let piece_of_int i = match Types.piece_of_N (n_of_int i) with Some p -> p | None -> Types.PNone
let color_of_int i = if i = 0 then Types.White else Types.Black

let rec spec_perft d p =
  if d = 0 then 0 else
  let ms = Rules.legal_moves p in
  if d = 1 then L.length ms
  else L.fold_left (fun acc m -> acc + spec_perft (d - 1) (freeze (Rules.apply p m))) 0 ms

let bb_str (n : coq_N) = dec_of_n n

(* seeded playout through the SPEC (independent of the code under test): returns the visited FENs *)
let spec_playout (seed : int) (plies : int) (fen : string) : string list =
  match spec_pos fen with
  | None -> []
  | Some p0 ->
    let st = ref (seed * 2654435761 + 1013904223) in
    let next () = st := (!st * 2862933555777941757 + 3037000493) land max_int; (!st lsr 17) in
    let rec go p n acc =
      if n = 0 then L.rev acc else
      let ms = Rules.legal_moves p in
      if ms = [] then L.rev acc else begin
        (* bias: special moves (promotion, castling, en passant, capture, double step) are preferred half of the time *)
        let special m =
          m.Rules.mv_promo <> None
          || (match p.Rules.p_at m.Rules.mv_from with
              | Some (_, Types.King) -> abs (int_of_n m.Rules.mv_from - int_of_n m.Rules.mv_to) = 2
              | Some (_, Types.Pawn) -> (int_of_n m.Rules.mv_from - int_of_n m.Rules.mv_to) mod 8 <> 0
                                        || abs (int_of_n m.Rules.mv_from - int_of_n m.Rules.mv_to) = 16
              | _ -> false)
          || p.Rules.p_at m.Rules.mv_to <> None in
        let sp = L.filter special ms in
        let pool = if sp <> [] && next () mod 2 = 0 then sp else ms in
        let m = L.nth pool (next () mod L.length pool) in
        let p' = freeze (Rules.apply p m) in
        go p' (n - 1) (spec_fen p' :: acc) end in
    go (freeze p0) plies [fen]


(* ---------- ChaCha8Rng (rand_chacha 0.3) + rand 0.8 sampling, as the searcher uses them ----------
   Trusted glue, validated on every run against the harness' `hashstream`/`jitter` dumps. *)
module Rng = struct
  type t = { key : int array; mutable counter : int; buf : int array; mutable index : int }
  let m32 = 0xFFFFFFFF
  let rotl x n = ((x lsl n) lor (x lsr (32 - n))) land m32
  let block key counter out off =
    let st = Array.make 16 0 in
    st.(0) <- 0x61707865; st.(1) <- 0x3320646e; st.(2) <- 0x79622d32; st.(3) <- 0x6b206574;
    Array.blit key 0 st 4 8;
    st.(12) <- counter land m32; st.(13) <- (counter lsr 32) land m32; st.(14) <- 0; st.(15) <- 0;
    let x = Array.copy st in
    let qr a b c d =
      x.(a) <- (x.(a) + x.(b)) land m32; x.(d) <- rotl (x.(d) lxor x.(a)) 16;
      x.(c) <- (x.(c) + x.(d)) land m32; x.(b) <- rotl (x.(b) lxor x.(c)) 12;
      x.(a) <- (x.(a) + x.(b)) land m32; x.(d) <- rotl (x.(d) lxor x.(a)) 8;
      x.(c) <- (x.(c) + x.(d)) land m32; x.(b) <- rotl (x.(b) lxor x.(c)) 7 in
    for _ = 1 to 4 do
      qr 0 4 8 12; qr 1 5 9 13; qr 2 6 10 14; qr 3 7 11 15;
      qr 0 5 10 15; qr 1 6 11 12; qr 2 7 8 13; qr 3 4 9 14
    done;
    for i = 0 to 15 do out.(off + i) <- (x.(i) + st.(i)) land m32 done
  let refill r =
    for b = 0 to 3 do block r.key (r.counter + b) r.buf (16 * b) done;
    r.counter <- r.counter + 4
  let of_seed_u64 (seed : Int64.t) : t =
    let state = ref seed in
    let key = Array.make 8 0 in
    for i = 0 to 7 do
      state := Int64.add (Int64.mul !state 6364136223846793005L) (-6812164046247290893L) (* 11634580027462260723 *);
      let s = !state in
      let xorshifted = Int64.to_int (Int64.logand (Int64.shift_right_logical (Int64.logxor (Int64.shift_right_logical s 18) s) 27) 0xFFFFFFFFL) in
      let rot = Int64.to_int (Int64.shift_right_logical s 59) in
      key.(i) <- ((xorshifted lsr rot) lor (xorshifted lsl ((32 - rot) land 31))) land m32
    done;
    { key; counter = 0; buf = Array.make 64 0; index = 64 }
  let next_u32 r =
    if r.index >= 64 then begin refill r; r.index <- 0 end;
    let v = r.buf.(r.index) in r.index <- r.index + 1; v
  (* returns (lo32, hi32) of the u64 *)
  let next_u64_parts r =
    if r.index < 63 then begin
      let lo = r.buf.(r.index) and hi = r.buf.(r.index + 1) in r.index <- r.index + 2; (lo, hi) end
    else if r.index >= 64 then begin
      refill r; r.index <- 2; (r.buf.(0), r.buf.(1)) end
    else begin
      let x = r.buf.(63) in refill r; r.index <- 1; (x, r.buf.(0)) end
  let next_u64_int64 r = let (lo, hi) = next_u64_parts r in Int64.logor (Int64.shift_left (Int64.of_int hi) 32) (Int64.of_int lo)
  let next_u64_n r : coq_N =
    let (lo, hi) = next_u64_parts r in
    BinNat.N.add (BinNat.N.mul (n_of_int hi) (n_of_int 4294967296)) (n_of_int lo)
  (* rng.gen_range(lo..=hi) for i32 (UniformInt::sample_single_inclusive) *)
  let gen_range_incl r lo hi =
    let range = (hi - lo + 1) land m32 in
    let lz = let rec go n k = if n land 0x80000000 <> 0 then k else go ((n lsl 1) land m32) (k + 1) in go range 0 in
    let zone = (((range lsl lz) land m32) - 1) land m32 in
    let rec loop () =
      let v = next_u32 r in
      let p = v * range in
      let hi32 = p lsr 32 and lo32 = p land m32 in
      if lo32 <= zone then lo + hi32 else loop () in
    loop ()
end

(* ---------- forced-mate solver over the rules specification (GameValue: Win n / Loss n) ----------
   loss p n : the side to move is checkmated now, or (n >= 2) has a legal move and every legal move leads to win _ (n-1)
   win  p n : (n >= 1) some legal move leads to loss _ (n-1).   n counts plies.  Memoised on (placement, side, rights, ep, n). *)
let memo : (string, bool) Hashtbl.t = Hashtbl.create 100000
let key_of p n tag = (let f = spec_fen p in
  let parts = String.split_on_char ' ' f in
  String.concat " " [L.nth parts 0; L.nth parts 1; L.nth parts 2; L.nth parts 3]) ^ tag ^ string_of_int n
let rec spec_loss (p : Rules.pos) (n : int) : bool =
  let k = key_of p n "L" in
  match Hashtbl.find_opt memo k with
  | Some b -> b
  | None ->
    let ms = Rules.legal_moves p in
    let b =
      if ms = [] then Rules.king_attacked p p.Rules.p_turn
      else if n < 2 then false
      else L.for_all (fun m -> spec_win (freeze (Rules.apply p m)) (n - 1)) ms in
    Hashtbl.replace memo k b; b
and spec_win (p : Rules.pos) (n : int) : bool =
  if n < 1 then false else
  let k = key_of p n "W" in
  match Hashtbl.find_opt memo k with
  | Some b -> b
  | None ->
    let ms = Rules.legal_moves p in
    let b = L.exists (fun m -> spec_loss (freeze (Rules.apply p m)) (n - 1)) ms in
    Hashtbl.replace memo k b; b
let spec_mate_distance p maxn =
  let rec go n = if n > maxn then None else if spec_win p n then Some n else go (n + 2) in go 1
let move_of_raw (m : coq_N) : Rules.move =
  { Rules.mv_from = MoveEnc.m_origin m; mv_to = MoveEnc.m_dest m; mv_promo = MoveEnc.m_promotion m }

let hashers : (string, Text.hasher) Hashtbl.t = Hashtbl.create 16

(* ---------- commands ---------- *)
let run (cmd : string) (args : string list) : string =
  match cmd, args with
  | "gen", [fen] ->
    (match model_state fen with
     | None -> "badfen"
     | Some s ->
       let l = L.map (fun (m, s') -> move_attrs m ^ "=" ^ model_fen s') (MoveGen.gen_legal s) in
       String.concat ";" (L.sort compare l))
  | "specgen", [fen] ->
    (match spec_pos fen with
     | None -> "badfen"
     | Some p ->
       let l = L.map (fun m -> spec_attrs p m ^ "=" ^ spec_fen (Rules.apply p m)) (Rules.legal_moves p) in
       String.concat ";" (L.sort compare l))
  | "perft", [d; fen] ->
    (match model_state fen with
     | None -> "badfen"
     | Some s -> dec_of_n (MoveGen.perft (nat_of_int (int_of_string d)) s))
  | "specperft", [d; fen] ->
    (match spec_pos fen with
     | None -> "badfen"
     | Some p -> string_of_int (spec_perft (int_of_string d) p))
  | "specplayout", [seed; plies; fen] ->
    String.concat ";" (spec_playout (int_of_string seed) (int_of_string plies) fen)
  | "moveblock", [c; p; o] ->
    (* all builds for this colour/kind/origin: d x {no capture, 5 kinds} x {no promotion, 4 kinds}, then e.p. and castling *)
    let c = color_of_int (int_of_string c) and p = piece_of_int (int_of_string p) and o = n_of_int (int_of_string o) in
    let ms = ref [] in
    for d = 0 to 63 do
      L.iter (fun cap -> L.iter (fun pro ->
        let m = MoveEnc.by_moving c p o (n_of_int d) in
        let m = if cap = 0 && pro = 0 then m
          else if pro = 0 then MoveEnc.by_capturing c p o (n_of_int d) (piece_of_int cap)
          else if cap = 0 then MoveEnc.by_promoting c p o (n_of_int d) (piece_of_int pro)
          else MoveEnc.by_capture_promoting c p o (n_of_int d) (piece_of_int cap) (piece_of_int pro) in
        ms := m :: !ms) [0; 2; 3; 4; 5]) [0; 1; 2; 3; 4; 5];
      ms := MoveEnc.by_en_passant c p o (n_of_int d) :: !ms
    done;
    L.iter (fun k -> ms := MoveEnc.by_castling c k :: !ms) [true; false];
    let ms = L.rev !ms in
    Printf.sprintf "%d %d 0" (L.length ms) (checksum_moves ms)
  | "moveone", [c; p; o; d; cap; pro] ->
    let c = color_of_int (int_of_string c) and p = piece_of_int (int_of_string p)
    and o = n_of_int (int_of_string o) and d = n_of_int (int_of_string d)
    and cap = int_of_string cap and pro = int_of_string pro in
    let m = if cap = 0 && pro = 0 then MoveEnc.by_moving c p o d
      else if pro = 0 then MoveEnc.by_capturing c p o d (piece_of_int cap)
      else if cap = 0 then MoveEnc.by_promoting c p o d (piece_of_int pro)
      else MoveEnc.by_capture_promoting c p o d (piece_of_int cap) (piece_of_int pro) in
    move_attrs m
  | "resolve", [fen; f; t; pr] ->
    (match model_state fen with
     | None -> "badfen"
     | Some s ->
       let f = n_of_int (int_of_string f) and t = n_of_int (int_of_string t) and pr = int_of_string pr in
       let q = { MoveEnc.q_empty with MoveEnc.q_orank = Some (Bits.rank_of f); q_ofile = Some (Bits.file_of f);
                 q_drank = Some (Bits.rank_of t); q_dfile = Some (Bits.file_of t);
                 q_promotion = (if pr = 0 then None else Some (piece_of_int pr)) } in
       (match MoveGen.resolve s [q] with
        | MoveGen.ROk s' -> "ok " ^ model_fen s'
        | MoveGen.RAmbiguous -> "ambiguous"
        | MoveGen.RUnknown -> "unknown"
        | MoveGen.RIllegalEp -> "illegal-ep"))
  | "specresolve", [fen; f; t; pr] ->
    (match spec_pos fen with
     | None -> "badfen"
     | Some p ->
       let f = int_of_string f and t = int_of_string t and pr = int_of_string pr in
       let ms = L.filter (fun m -> int_of_n m.Rules.mv_from = f && int_of_n m.Rules.mv_to = t
                                   && (pr = 0 || opt_piece_int m.Rules.mv_promo = pr)) (Rules.legal_moves p) in
       (match ms with
        | [m] -> "ok " ^ spec_fen (Rules.apply p m)
        | [] -> "unknown"
        | _ -> "ambiguous"))
  | "tableops", [nt; nb; ops] ->
    let a0 = Table.empty_access (nat_of_int (int_of_string nt)) (nat_of_int (int_of_string nb)) in
    let z_of_int i = if i >= 0 then (match n_of_int i with N0 -> Z0 | Npos p -> Zpos p) else (match n_of_int (-i) with N0 -> Z0 | Npos p -> Zneg p) in
    let int_of_z = function Z0 -> 0 | Zpos p -> int_of_pos p | Zneg p -> - (int_of_pos p) in
    let kind_of = function 0 -> Table.Exact | 1 -> Table.UpperBound | _ -> Table.LowerBound in
    let kind_to = function Table.Exact -> 0 | Table.UpperBound -> 1 | Table.LowerBound -> 2 in
    let a = ref a0 in
    let out = L.map (fun op ->
      match String.split_on_char ':' op with
      | "i" :: k :: kd :: raw :: d :: md :: ev :: _ ->
        a := Table.acc_insert !a (n_of_dec k) { Table.e_kind = kind_of (int_of_string kd); e_move = n_of_dec raw;
                                                e_depth = n_of_dec d; e_maxdepth = n_of_dec md; e_eval = z_of_int (int_of_string ev) };
        "n" ^ dec_of_n (Table.acc_entries !a)
      | _ :: k :: _ ->
        (match Table.acc_find !a (n_of_dec k) with
         | None -> "-"
         | Some e -> Printf.sprintf "%d:%s:%s:%s:%d" (kind_to e.Table.e_kind) (dec_of_n e.Table.e_move) (dec_of_n e.Table.e_depth)
                       (dec_of_n e.Table.e_maxdepth) (int_of_z e.Table.e_eval))
      | _ -> "?") (String.split_on_char ',' ops) in
    String.concat "," out ^ " max=" ^ dec_of_n (Table.acc_max_entries !a)
  | "eval", [fen; plies] ->
    (match model_state fen with
     | None -> "badfen"
     | Some s ->
       let int_of_z = function Z0 -> 0 | Zpos p -> int_of_pos p | Zneg p -> - (int_of_pos p) in
       let one c p = match Eval.evaluate s c (n_of_dec p) with Eval.EVal v -> string_of_int (int_of_z v) | Eval.EPanic -> "panic" in
       let l = L.map (fun p -> one Types.White p ^ "/" ^ one Types.Black p) (String.split_on_char ',' plies) in
       if L.exists (fun x -> x = "panic/panic") l then "panic" else String.concat "," l)
  | "estimate", [fen] ->
    (match model_state fen with
     | None -> "badfen"
     | Some s ->
       let int_of_z = function Z0 -> 0 | Zpos p -> int_of_pos p | Zneg p -> - (int_of_pos p) in
       let l = L.map (fun m -> Printf.sprintf "%d:%d" (int_of_n m) (int_of_z (Eval.estimate s m))) (MoveGen.pseudo_legal s) in
       String.concat "," (L.sort compare l))
  | "attacks", [fen] ->
    (match model_state fen with
     | None -> "badfen"
     | Some s ->
       let b = s.Board.st_board in
       Printf.sprintf "%s,%s,%s,%s,%d,%d,%d" (bb_str (Board.colored_attacks b Types.White)) (bb_str (Board.colored_attacks b Types.Black))
         (bb_str (Board.colored_pawn_attacks b Types.White)) (bb_str (Board.colored_pawn_attacks b Types.Black))
         (bool_int (Board.board_is_check b Types.White)) (bool_int (Board.board_is_check b Types.Black)) (bool_int (Board.is_check s)))
  | "specattacks", [fen] ->
    (* attack sets from the rules: union over pieces of attacks_from, minus own squares; check = king attacked *)
    (match spec_pos fen with
     | None -> "badfen"
     | Some p ->
       let set c pawn_only =
         let acc = ref N0 in
         for t = 0 to 63 do
           let tn = n_of_int t in
           let att = ref false in
           for f = 0 to 63 do
             match p.Rules.p_at (n_of_int f) with
             | Some (c', k) when c' = c && ((not pawn_only) || k = Types.Pawn) ->
               if Rules.attacks_from p c k (n_of_int f) tn then att := true
             | _ -> ()
           done;
           let own = (match p.Rules.p_at tn with Some (c', _) -> c' = c | None -> false) in
           if !att && not own then acc := BinNat.N.add !acc (BinNat.N.shiftl (n_of_int 1) tn)
         done; !acc in
       Printf.sprintf "%s,%s,%s,%s,%d,%d,%d" (bb_str (set Types.White false)) (bb_str (set Types.Black false))
         (bb_str (set Types.White true)) (bb_str (set Types.Black true))
         (bool_int (Rules.king_attacked p Types.White)) (bool_int (Rules.king_attacked p Types.Black))
         (bool_int (Rules.king_attacked p p.Rules.p_turn)))
  | "attackops", [fen; ops] ->
    (match model_state fen with
     | None -> "badfen"
     | Some s ->
       let cur = ref (Board.fresh s.Board.st_board) and saved = ref (Board.fresh s.Board.st_board) in
       let q c = let (m, cb) = Board.attack_map !cur c in cur := cb; m in
       let out = ref [] in
       L.iter (fun op ->
         match op with
         | "aw" -> out := bb_str (fst (q Types.White)) :: !out
         | "ab" -> out := bb_str (fst (q Types.Black)) :: !out
         | "pw" -> out := bb_str (snd (q Types.White)) :: !out
         | "pb" -> out := bb_str (snd (q Types.Black)) :: !out
         | "cw" -> let a = fst (q Types.Black) in
           out := (if BinNat.N.eqb (BinNat.N.coq_land (Board.pocc !cur.Board.cb_board Types.White Types.King) a) N0 then "0" else "1") :: !out
         | "cb" -> let a = fst (q Types.White) in
           out := (if BinNat.N.eqb (BinNat.N.coq_land (Board.pocc !cur.Board.cb_board Types.Black Types.King) a) N0 then "0" else "1") :: !out
         | "clone" -> saved := !cur
         | _ -> let t = !cur in cur := !saved; saved := t) (String.split_on_char ',' ops);
       String.concat "," (L.rev !out))
  | "rulekey", [fen] ->
    (* placement, side, rights and whether an en-passant capture is available (by the rules), as a string *)
    (match spec_pos fen with
     | None -> "badfen"
     | Some p ->
       let parts = String.split_on_char ' ' fen in
       let epav = match p.Rules.p_ep with
         | None -> "-"
         | Some t -> if L.exists (fun f -> match p.Rules.p_at f with
             | Some (c, Types.Pawn) when c = p.Rules.p_turn -> Rules.pseudo_legal p { Rules.mv_from = f; mv_to = t; mv_promo = None }
             | _ -> false) (L.init 64 n_of_int) then L.nth parts 3 else "-" in
       String.concat " " [L.nth parts 0; L.nth parts 1; L.nth parts 2; epav])
  | "specterm", [fen] ->
    (match spec_pos fen with
     | None -> "badfen"
     | Some p -> if Rules.checkmate p then "mate" else if Rules.stalemate p then "stale" else "none")
  | "sancases", [fen] ->
    (* every legal move x every admissible spelling, and the long form of every pseudo-legal illegal move *)
    (match spec_pos fen with
     | None -> "badfen"
     | Some p ->
       let pos = L.concat_map (fun m -> L.map (fun sp -> string_of_cps sp ^ ">" ^ spec_move_str m) (SanSpec.spellings p m)) (Rules.legal_moves p) in
       let neg = L.map (fun m -> string_of_cps (SanSpec.long_form p m) ^ ">") (SanSpec.illegal_pseudo_moves p) in
       String.concat " " (pos @ neg))
  | "san", [fen; text] ->
    (match model_state fen with
     | None -> "badfen"
     | Some s ->
       (match Notation.san_parse (codepoints (unescape text)) with
        | None -> "err"
        | Some q ->
          let l = L.filter_map (fun (m, _) -> if MoveEnc.qtest q m then
              Some (Printf.sprintf "%d/%d/%d" (int_of_n (MoveEnc.m_origin m)) (int_of_n (MoveEnc.m_dest m)) (opt_piece_int (MoveEnc.m_promotion m))) else None)
              (MoveGen.gen_legal s) in
          "ok " ^ String.concat ";" (L.sort compare l)))
  | "lan", [fen] ->
    (match model_state fen with
     | None -> "badfen"
     | Some s ->
       let l = L.map (fun (m, n) ->
         let text = Notation.lan_write m in
         let same = (match Notation.uci_move_query text with
           | Text.Ok q -> (match MoveGen.resolve s [q] with MoveGen.ROk n' -> n' = n | _ -> false)
           | _ -> false) in
         Printf.sprintf "%d/%d/%d>%s>%d" (int_of_n (MoveEnc.m_origin m)) (int_of_n (MoveEnc.m_dest m)) (opt_piece_int (MoveEnc.m_promotion m))
           (string_of_cps text) (bool_int same)) (MoveGen.gen_legal s) in
       String.concat ";" (L.sort compare l))
  | "search", [hseed; seed; depth; cancel; workers; nt; nb; hist; fens] ->
    let int_of_z = function Z0 -> 0 | Zpos p -> int_of_pos p | Zneg p -> - (int_of_pos p) in
    let z_of_int i = if i >= 0 then (match n_of_int i with N0 -> Z0 | Npos p -> Zpos p) else (match n_of_int (-i) with N0 -> Z0 | Npos p -> Zneg p) in
    let r0 = Rng.of_seed_u64 (Int64.of_string ("0u" ^ hseed)) in
    let hs = Text.hasher_of_stream (L.init 1038 (fun _ -> Rng.next_u64_n r0)) in
    let tt = ref (Table.empty_access (nat_of_int (int_of_string nt)) (nat_of_int (int_of_string nb))) in
    let history = ref (if hist = "-" then [] else
      L.filter_map (fun h -> match model_state h with Some st -> Some (Text.hash hs st) | None -> None) (String.split_on_char '|' hist)) in
    (* dedupe as a set of keys *)
    let cancel_at = if cancel = "-" then None else Some (n_of_int (int_of_string cancel)) in
    let iters = if depth = "-" then 100000 else int_of_string depth in
    if workers <> "1" then "model-single-worker-only" else
    let outs = L.mapi (fun i fen ->
      (* "fen@d" overrides the depth limit for this search of the chain *)
      let (fen, iters) = match String.rindex_opt fen '@' with
        | Some k -> (String.sub fen 0 k, int_of_string (String.sub fen (k + 1) (String.length fen - k - 1)))
        | None -> (fen, iters) in
      match model_state fen with
      | None -> "badfen"
      | Some st ->
        let main = Rng.of_seed_u64 (Int64.add (Int64.of_string ("0u" ^ seed)) (Int64.of_int i)) in
        let wseeds : (int, Rng.t * int array ref * int ref) Hashtbl.t = Hashtbl.create 8 in
        let drawn = ref 0 in
        let worker it =
          (match Hashtbl.find_opt wseeds it with
           | Some w -> w
           | None ->
             (* iterations are visited in order, one worker each: the it-th gen() of the main rng *)
             while !drawn < it do ignore (Rng.next_u64_parts main); incr drawn done;
             let w = (Rng.of_seed_u64 (Rng.next_u64_int64 main), ref (Array.make 1024 0), ref 0) in
             incr drawn; Hashtbl.replace wseeds it w; w) in
        let jit_of itn idxn =
          let (r, buf, filled) = worker (int_of_n itn) in
          let idx = int_of_n idxn in
          while !filled <= idx do
            if !filled >= Array.length !buf then begin
              let nb = Array.make (2 * Array.length !buf) 0 in Array.blit !buf 0 nb 0 !filled; buf := nb end;
            (!buf).(!filled) <- Rng.gen_range_incl r (-10) 10; incr filled
          done;
          z_of_int (!buf).(idx) in
        let res = Search.analyze_iterative hs jit_of cancel_at (nat_of_int iters) st !history !tt in
        tt := res.Search.r_tt; history := res.Search.r_history;
        let evs = L.map (function
          | Search.EvProgress (d, n) -> Printf.sprintf "P%d:%d" (int_of_n d) (int_of_n n)
          | Search.EvBest (ev, line) -> Printf.sprintf "B%d:%s" (int_of_z ev) (String.concat "," (L.map (fun m -> string_of_int (int_of_n m)) line))) res.Search.r_events in
        let oc = int_of_n res.Search.r_outcome in
        let tr = L.rev res.Search.r_trace in
        let md = 1000000007 in
        let nmod n = int_of_n (snd (BinNat.N.div_eucl n (n_of_int md))) in
        let acc = L.fold_left (fun acc ((((h, d), mx), a), b) ->
          L.fold_left (fun acc x -> (acc * 131 + x + 7) mod md) acc [nmod h; int_of_n d mod md; int_of_n mx mod md; int_of_z a + 20000; int_of_z b + 20000]) 17 tr in
        let evs = if Sys.getenv_opt "WV_TRACE" <> None then
            evs @ [Printf.sprintf "TRACE[%s]" (String.concat " " (L.map (fun ((((h, d), mx), a), b) ->
              Printf.sprintf "%s:%d:%d:%d:%d" (dec_of_n h) (int_of_n d) (int_of_n mx) (int_of_z a) (int_of_z b)) tr))] else evs in
        Printf.sprintf "%s #%d t%d%s" (String.concat " " evs) (int_of_n res.Search.r_gnodes) acc (if oc >= 2 then Printf.sprintf " MODEL-OUTCOME-%d" oc else ""))
      (String.split_on_char '|' fens) in
    String.concat " || " outs
  | "node", [hseed; jseed; md; cd; ce; alpha; beta; nt; nb; hist; pre; fen] ->
    (* ONE call of Search.analyze with arbitrary parameters (the object of the call-level theorems), table preloaded *)
    let int_of_z = function Z0 -> 0 | Zpos p -> int_of_pos p | Zneg p -> - (int_of_pos p) in
    let z_of_int i = if i >= 0 then (match n_of_int i with N0 -> Z0 | Npos p -> Zpos p) else (match n_of_int (-i) with N0 -> Z0 | Npos p -> Zneg p) in
    (match model_state fen with
     | None -> "badfen"
     | Some st ->
       let r0 = Rng.of_seed_u64 (Int64.of_string ("0u" ^ hseed)) in
       let hs = Text.hasher_of_stream (L.init 1038 (fun _ -> Rng.next_u64_n r0)) in
       let tt0 = Table.empty_access (nat_of_int (int_of_string nt)) (nat_of_int (int_of_string nb)) in
       let history = if hist = "-" then [] else
         L.fold_left (fun acc h -> match model_state h with
           | Some s -> let k = Text.hash hs s in if L.exists (fun x -> x = k) acc then acc else k :: acc
           | None -> acc) [] (String.split_on_char '|' hist) in
       let root = Text.hash hs st in
       let kind_of = function "0" -> Table.Exact | "1" -> Table.UpperBound | _ -> Table.LowerBound in
       let tt = if pre = "-" then tt0 else
         L.fold_left (fun tt e -> match String.split_on_char ':' e with
           | [k; kd; mv; d; mx; ev] ->
             let key = if k = "@" then root else n_of_dec k in
             Table.acc_insert tt key { Table.e_kind = kind_of kd; e_move = n_of_dec mv; e_depth = n_of_dec d; e_maxdepth = n_of_dec mx; e_eval = z_of_int (int_of_string ev) }
           | _ -> tt) tt0 (String.split_on_char ';' pre) in
       let jr = Rng.of_seed_u64 (Int64.of_string ("0u" ^ jseed)) in
       let buf = ref (Array.make 1024 0) and filled = ref 0 in
       let jit idxn =
         let idx = int_of_n idxn in
         while !filled <= idx do
           if !filled >= Array.length !buf then begin
             let nb2 = Array.make (2 * Array.length !buf) 0 in Array.blit !buf 0 nb2 0 !filled; buf := nb2 end;
           (!buf).(!filled) <- Rng.gen_range_incl jr (-10) 10; incr filled
         done;
         z_of_int (!buf).(idx) in
       let mdi = int_of_string md and cdi = int_of_string cd in
       let fuel = nat_of_int ((if mdi > cdi then mdi - cdi else 0) + 2) in
       let w0 = { Search.w_tt = tt; w_jidx = N0; w_nodes = N0; w_gnodes = N0; w_flag = false; w_trace = [] } in
       (match Search.analyze hs history jit None fuel st (n_of_dec md) (n_of_dec cd) (n_of_dec ce)
                (z_of_int (int_of_string alpha)) (z_of_int (int_of_string beta)) None w0 with
        | Search.SVal (v, w) ->
          let mdv = 1000000007 in
          let nmod n = int_of_n (snd (BinNat.N.div_eucl n (n_of_int mdv))) in
          let pad s = String.make (20 - String.length s) '0' ^ s in
          let entries = L.concat_map (fun t -> L.concat_map (fun b -> L.filter_map (fun sl -> sl) b) t.Table.t_buckets) w.Search.w_tt in
          let entries = L.sort (fun (k1, _) (k2, _) -> compare (pad (dec_of_n k1)) (pad (dec_of_n k2))) entries in
          let kind_int = function Table.Exact -> 0 | Table.UpperBound -> 1 | Table.LowerBound -> 2 in
          let acc = L.fold_left (fun acc (k, e) ->
            L.fold_left (fun acc x -> (acc * 131 + x + 7) mod mdv) acc
              [nmod k; kind_int e.Table.e_kind; nmod e.Table.e_move; int_of_n e.Table.e_depth mod mdv; int_of_n e.Table.e_maxdepth mod mdv; int_of_z e.Table.e_eval + 20000]) 17 entries in
          Printf.sprintf "V%d #%d T%d:%d" (int_of_z v) (int_of_n w.Search.w_nodes) (L.length entries) acc
        | Search.SInterrupt _ -> "interrupted"
        | Search.SPanic _ -> "panic"
        | Search.SFuel -> "MODEL-FUEL"))
  | "msearch", [hseed; seed; depth; workers; nt; nb; hist; sched; fens] ->
    (* several workers on one shared table under a forced schedule (model/Conc.v); the harness runs the real
       analyze_iterative under the same schedule through the yield-point hook *)
    let int_of_z = function Z0 -> 0 | Zpos p -> int_of_pos p | Zneg p -> - (int_of_pos p) in
    let z_of_int i = if i >= 0 then (match n_of_int i with N0 -> Z0 | Npos p -> Zpos p) else (match n_of_int (-i) with N0 -> Z0 | Npos p -> Zneg p) in
    let r0 = Rng.of_seed_u64 (Int64.of_string ("0u" ^ hseed)) in
    let hs = Text.hasher_of_stream (L.init 1038 (fun _ -> Rng.next_u64_n r0)) in
    let tt = ref (Table.empty_access (nat_of_int (int_of_string nt)) (nat_of_int (int_of_string nb))) in
    let history = ref (if hist = "-" then [] else
      L.filter_map (fun h -> match model_state h with Some st -> Some (Text.hash hs st) | None -> None) (String.split_on_char '|' hist)) in
    let nw = int_of_string workers in
    let iters = int_of_string depth in
    let schedule = if sched = "-" then [] else L.map n_of_dec (String.split_on_char ',' sched) in
    let outs = L.mapi (fun i fen ->
      match model_state fen with
      | None -> "badfen"
      | Some st ->
        let main = Rng.of_seed_u64 (Int64.add (Int64.of_string ("0u" ^ seed)) (Int64.of_int i)) in
        (* the main rng hands one u64 to every worker of every iteration, in order *)
        let wseeds : (int, Rng.t * int array ref * int ref) Hashtbl.t = Hashtbl.create 8 in
        let drawn = ref 0 in
        let worker it w =
          let slot = it * nw + w in
          (match Hashtbl.find_opt wseeds slot with
           | Some x -> x
           | None ->
             while !drawn < slot do
               let x = (Rng.of_seed_u64 (Rng.next_u64_int64 main), ref (Array.make 1024 0), ref 0) in
               Hashtbl.replace wseeds !drawn x; incr drawn done;
             (match Hashtbl.find_opt wseeds slot with
              | Some x -> x
              | None ->
                let x = (Rng.of_seed_u64 (Rng.next_u64_int64 main), ref (Array.make 1024 0), ref 0) in
                Hashtbl.replace wseeds slot x; incr drawn; x)) in
        let jit_of itn wn idxn =
          let (r, buf, filled) = worker (int_of_n itn) (int_of_n wn) in
          let idx = int_of_n idxn in
          while !filled <= idx do
            if !filled >= Array.length !buf then begin
              let nb = Array.make (2 * Array.length !buf) 0 in Array.blit !buf 0 nb 0 !filled; buf := nb end;
            (!buf).(!filled) <- Rng.gen_range_incl r (-10) 10; incr filled
          done;
          z_of_int (!buf).(idx) in
        (* workers are created in index order within an iteration: force the seeds in that order *)
        let jit_of itn wn idxn = (for w = 0 to int_of_n wn do ignore (worker (int_of_n itn) w) done); jit_of itn wn idxn in
        let res = Conc.analyze_iterativeM hs jit_of (nat_of_int nw) (nat_of_int iters) st !history !tt schedule in
        tt := res.Conc.m_tt; history := res.Conc.m_history;
        let evs = L.map (function
          | Search.EvProgress (d, n) -> Printf.sprintf "P%d:%d" (int_of_n d) (int_of_n n)
          | Search.EvBest (ev, line) -> Printf.sprintf "B%d:%s" (int_of_z ev) (String.concat "," (L.map (fun m -> string_of_int (int_of_n m)) line))) res.Conc.m_events in
        let oc = int_of_n res.Conc.m_outcome in
        let md = 1000000007 in
        let nmod n = int_of_n (snd (BinNat.N.div_eucl n (n_of_int md))) in
        let pad s = String.make (20 - String.length s) '0' ^ s in
        let entries = L.concat_map (fun t -> L.concat_map (fun b -> L.filter_map (fun sl -> sl) b) t.Table.t_buckets) !tt in
        let entries = L.sort (fun (k1, _) (k2, _) -> compare (pad (dec_of_n k1)) (pad (dec_of_n k2))) entries in
        let kind_int = function Table.Exact -> 0 | Table.UpperBound -> 1 | Table.LowerBound -> 2 in
        let acc = L.fold_left (fun acc (k, e) ->
          L.fold_left (fun acc x -> (acc * 131 + x + 7) mod md) acc
            [nmod k; kind_int e.Table.e_kind; nmod e.Table.e_move; int_of_n e.Table.e_depth mod md; int_of_n e.Table.e_maxdepth mod md; int_of_z e.Table.e_eval + 20000]) 17 entries in
        let used = L.length schedule - L.length res.Conc.m_sched in
        Printf.sprintf "%s T%d:%d S%d%s" (String.concat " " evs) (L.length entries) acc used (if oc >= 2 then Printf.sprintf " MODEL-OUTCOME-%d" oc else ""))
      (String.split_on_char '|' fens) in
    String.concat " || " outs
  | "specline", [fen; raws] ->
    (* is the line (packed moves, read by their coordinates) legal move by move under the rules? *)
    (match spec_pos fen with
     | None -> "badfen"
     | Some p0 ->
       if raws = "" then "empty" else
       let rec go p i = function
         | [] -> "legal"
         | r :: tl ->
           let mv = move_of_raw (n_of_dec r) in
           if int_of_n mv.Rules.mv_from < 64 && int_of_n mv.Rules.mv_to < 64 && L.mem mv (Rules.legal_moves p)
           then go (freeze (Rules.apply p mv)) (i + 1) tl else Printf.sprintf "illegal-at-%d" i in
       go (freeze p0) 0 (String.split_on_char ',' raws))
  | "specmate", [fen; maxn] ->
    (* shortest forced mate for the side to move within maxn plies, and which first moves keep a forced mate (within maxn-1) *)
    (match spec_pos fen with
     | None -> "badfen"
     | Some p ->
       let p = freeze p in
       let maxn = int_of_string maxn in
       (match spec_mate_distance p maxn with
        | None -> "none"
        | Some n ->
          let keep = L.filter (fun m -> spec_loss (freeze (Rules.apply p m)) (maxn - 1)) (Rules.legal_moves p) in
          let dist m = let p' = freeze (Rules.apply p m) in
            let rec go k = if k > maxn - 1 then 0 else if spec_loss p' k then k + 1 else go (k + 1) in go 0 in
          Printf.sprintf "%d %s" n (String.concat ";" (L.map (fun m -> spec_move_str m ^ "=" ^ spec_fen (Rules.apply p m) ^ "@" ^ string_of_int (dist m)) keep))))
  | "specwin", [fen; maxn] ->
    (* is there a forced mate for the side to move within maxn plies? (memoised solver; no move list) *)
    (match spec_pos fen with
     | None -> "badfen"
     | Some p -> if spec_win (freeze p) (int_of_string maxn) then "win" else "none")
  | "gvwin", [fen; n] ->
    (* the extracted GameValue.win (no memoisation) next to the memoised solver of this driver: they must agree *)
    (match spec_pos fen with
     | None -> "badfen"
     | Some p ->
       let p = freeze p in
       let n = int_of_string n in
       Printf.sprintf "%b %b" (GameValue.win (nat_of_int n) p) (spec_win p n))
  | "speckeeps", [fen; raw; maxn] ->
    (* does the move keep a forced mate against the opponent (opponent is lost within maxn plies)? *)
    (match spec_pos fen with
     | None -> "badfen"
     | Some p ->
       let mv = move_of_raw (n_of_dec raw) in
       if not (L.mem mv (Rules.legal_moves p)) then "illegal"
       else if spec_loss (freeze (Rules.apply p mv)) (int_of_string maxn) then "keeps" else "not-within-bound")
  | "specsan", [fen; tok] ->
    (* the legal move whose admissible spellings contain the token (book movetext); successor FEN *)
    (match spec_pos fen with
     | None -> "badfen"
     | Some p ->
       let cps = codepoints tok in
       let ms = L.filter (fun m -> L.mem cps (SanSpec.spellings p m)) (Rules.legal_moves p) in
       (match ms with
        | [m] -> spec_move_str m ^ "=" ^ spec_fen (Rules.apply p m)
        | [] -> "none"
        | _ -> "ambiguous"))
  | "specplay", [fen; moves] ->
    (* play coordinate moves (e2e4, e7e8q) by the rules; the FEN reached or illegal-at-i *)
    (match spec_pos fen with
     | None -> "badfen"
     | Some p0 ->
       let toks = if moves = "" then [] else String.split_on_char ' ' moves in
       let rec go p i = function
         | [] -> spec_fen p
         | t :: tl ->
           if String.length t < 4 then Printf.sprintf "illegal-at-%d" i else
           let sq a b = (Char.code b - 49) * 8 + (Char.code a - 97) in
           let f = sq t.[0] t.[1] and d = sq t.[2] t.[3] in
           let pr = if String.length t > 4 then (match t.[4] with 'q' -> Some Types.Queen | 'r' -> Some Types.Rook | 'b' -> Some Types.Bishop | 'n' -> Some Types.Knight | _ -> None) else None in
           let cands = L.filter (fun m -> int_of_n m.Rules.mv_from = f && int_of_n m.Rules.mv_to = d && m.Rules.mv_promo = pr) (Rules.legal_moves p) in
           (match cands with
            | [m] -> go (freeze (Rules.apply p m)) (i + 1) tl
            | _ -> Printf.sprintf "illegal-at-%d" i) in
       go (freeze p0) 0 toks)
  | "ucimodel", [bookfens; lines] ->
    (* the session state machine of Uci.v run on a command history; in_book is the given set of FENs (placement side rights ep) *)
    let key f = (match String.split_on_char ' ' f with a :: b :: c :: d :: _ -> String.concat " " [a; b; c; d] | _ -> f) in
    let books = if bookfens = "-" then [] else L.map key (String.split_on_char '|' bookfens) in
    let in_book st = L.mem (key (model_fen st)) books in
    let start = (match model_state "rnbqkbnr/pppppppp/8/8/8/8/PPPPPPPP/RNBQKBNR w KQkq - 0 1" with Some s -> s | None -> failwith "start") in
    let ls = String.split_on_char '\031' (unescape lines) in
    let render = function
      | Uci.OIdName -> "idname" | Uci.OIdAuthor -> "idauthor" | Uci.OUciOk -> "uciok" | Uci.OReadyOk -> "readyok"
      | Uci.OInfo n -> "info" ^ string_of_int (int_of_n n)
      | Uci.OBookMove p -> "book:" ^ model_fen p
      | Uci.OSearchStarted (p, a) -> "start:" ^ model_fen p ^ ":" ^ (if a then "1" else "0")
      | Uci.OCollected p -> "collected:" ^ model_fen p
      | Uci.OStateDump p -> "state:" ^ model_fen p
      | Uci.OStatusDump b -> "status:" ^ (if b then "1" else "0")
      | Uci.OExit -> "exit" in
    let sess = ref (Uci.fresh start) in
    let continue = ref true in
    let outs = ref [] in
    L.iter (fun l ->
      if !continue then begin
        let ((s', o), c) = Uci.step start in_book !sess (codepoints l) in
        sess := s'; continue := c;
        outs := String.concat "~" (L.map render o) :: !outs end) ls;
    let (_, o) = Uci.collect !sess in
    outs := String.concat "~" (L.map render o @ ["exit"]) :: !outs;
    String.concat " || " (L.rev !outs)
  | "bookgame", [toks] ->
    (* Book.game_entries on the raw whitespace tokens of one game: the (position, move) pairs the build script records *)
    let r0 = Rng.of_seed_u64 77L in
    let hs = Text.hasher_of_stream (L.init 1038 (fun _ -> Rng.next_u64_n r0)) in
    let start = (match model_state "rnbqkbnr/pppppppp/8/8/8/8/PPPPPPPP/RNBQKBNR w KQkq - 0 1" with Some s -> s | None -> failwith "start") in
    let tl = L.map codepoints (L.filter (fun t -> t <> "") (String.split_on_char ' ' (unescape toks))) in
    (match Book.game_entries hs start tl with
     | None -> "error"
     | Some es ->
       let st = ref start in
       String.concat ";" (L.map (fun (h, m) ->
         let f = model_fen !st in
         let ok = (Text.hash hs !st = h) in
         (match MoveGen.apply_move !st m with Some n -> st := n | None -> ());
         Printf.sprintf "%s=%d/%d/%d%s" f (int_of_n (MoveEnc.m_origin m)) (int_of_n (MoveEnc.m_dest m)) (opt_piece_int (MoveEnc.m_promotion m)) (if ok then "" else "!HASH")) es))
  | "analyze", [seed; depth; fen] ->
    (* the public entry point on a fresh artifact: hasher keys are the first 1038 draws of the seed's stream, then one worker seed per
       iteration (single worker below iteration depth 3); the default table is large, modelled by a table in which no bucket overflows *)
    let int_of_z = function Z0 -> 0 | Zpos p -> int_of_pos p | Zneg p -> - (int_of_pos p) in
    let z_of_int i = if i >= 0 then (match n_of_int i with N0 -> Z0 | Npos p -> Zpos p) else (match n_of_int (-i) with N0 -> Z0 | Npos p -> Zneg p) in
    (match model_state fen with
     | None -> "badfen"
     | Some st ->
       let main = Rng.of_seed_u64 (Int64.of_string ("0u" ^ seed)) in
       let hs = Text.hasher_of_stream (L.init 1038 (fun _ -> Rng.next_u64_n main)) in
       let tt = Table.empty_access (nat_of_int 16) (nat_of_int 4096) in
       let workers : (int, Rng.t * int array ref * int ref) Hashtbl.t = Hashtbl.create 8 in
       let drawn = ref 0 in
       let worker it =
         (match Hashtbl.find_opt workers it with
          | Some w -> w
          | None ->
            while !drawn < it do ignore (Rng.next_u64_parts main); incr drawn done;
            let w = (Rng.of_seed_u64 (Rng.next_u64_int64 main), ref (Array.make 1024 0), ref 0) in
            incr drawn; Hashtbl.replace workers it w; w) in
       let jit_of itn idxn =
         let (r, buf, filled) = worker (int_of_n itn) in
         let idx = int_of_n idxn in
         while !filled <= idx do
           if !filled >= Array.length !buf then begin
             let nb = Array.make (2 * Array.length !buf) 0 in Array.blit !buf 0 nb 0 !filled; buf := nb end;
           (!buf).(!filled) <- Rng.gen_range_incl r (-10) 10; incr filled
         done;
         z_of_int (!buf).(idx) in
       let res = Search.analyze_iterative hs jit_of None (nat_of_int (int_of_string depth)) st [] tt in
       String.concat " " (L.map (function
         | Search.EvProgress (d, n) -> Printf.sprintf "P%d:%d" (int_of_n d) (int_of_n n)
         | Search.EvBest (ev, line) -> Printf.sprintf "B%d:%s" (int_of_z ev) (String.concat "," (L.map (fun m -> string_of_int (int_of_n m)) line))) res.Search.r_events))
  | "hashstream", [seed] ->
    let r = Rng.of_seed_u64 (Int64.of_string ("0u" ^ seed)) in
    String.concat "," (L.init 1038 (fun _ -> dec_of_n (Rng.next_u64_n r)))
  | "jitter", [seed; n] ->
    (* what the searcher draws for its first worker of the first iteration on a fresh artifact: hasher keys, worker seed, jitter *)
    let r = Rng.of_seed_u64 (Int64.of_string ("0u" ^ seed)) in
    for _ = 1 to 1038 do ignore (Rng.next_u64_parts r) done;
    let w = Rng.of_seed_u64 (Rng.next_u64_int64 r) in
    String.concat "," (L.init (int_of_string n) (fun _ -> string_of_int (Rng.gen_range_incl w (-10) 10)))
  | "sethasher", [seed; stream] ->
    Hashtbl.replace hashers seed (Text.hasher_of_stream (L.map n_of_dec (String.split_on_char ',' stream))); "ok"
  | "hash", [seed; fen] ->
    (match model_state fen, Hashtbl.find_opt hashers seed with
     | Some s, Some h -> dec_of_n (Text.hash h s)
     | None, _ -> "badfen"
     | _, None -> "no-hasher")
  | "specgame", [seed; plies; fen] ->
    (* a seeded game through the spec: coordinate moves and the FEN after each *)
    (match spec_pos fen with
     | None -> "badfen"
     | Some p0 ->
       let st = ref (int_of_string seed * 2654435761 + 1013904223) in
       let next () = st := (!st * 2862933555777941757 + 3037000493) land max_int; (!st lsr 17) in
       let coord m =
         let sq s = let i = int_of_n s in Printf.sprintf "%c%c" (Char.chr (97 + i mod 8)) (Char.chr (49 + i / 8)) in
         sq m.Rules.mv_from ^ sq m.Rules.mv_to ^ (match m.Rules.mv_promo with Some Types.Queen -> "q" | Some Types.Rook -> "r" | Some Types.Bishop -> "b" | Some Types.Knight -> "n" | _ -> "") in
       let rec go p n acc =
         if n = 0 then L.rev acc else
         let ms = Rules.legal_moves p in
         if ms = [] then L.rev acc else
         let m = L.nth ms (next () mod L.length ms) in
         let p' = freeze (Rules.apply p m) in
         go p' (n - 1) ((coord m ^ "=" ^ spec_fen p') :: acc) in
       String.concat ";" (go (freeze p0) (int_of_string plies) []))
  | "legalpos", [fen] ->
    (match spec_pos fen with None -> "badfen" | Some p -> if Rules.legal_pos p then "1" else "0")
  | "rook", [s; occ] -> bb_str (Attacks.rook_attacks (n_of_int (int_of_string s)) (n_of_dec occ))
  | "bishop", [s; occ] -> bb_str (Attacks.bishop_attacks (n_of_int (int_of_string s)) (n_of_dec occ))
  | "queen", [s; occ] -> bb_str (Attacks.queen_attacks (n_of_int (int_of_string s)) (n_of_dec occ))
  | "specrook", [s; occ] -> bb_str (Attacks.walk_dirs (n_of_dec occ) (n_of_int (int_of_string s)) Attacks.rook_dirs)
  | "specbishop", [s; occ] -> bb_str (Attacks.walk_dirs (n_of_dec occ) (n_of_int (int_of_string s)) Attacks.bishop_dirs)
  | "leapers", [s] ->
    let s = n_of_int (int_of_string s) in
    String.concat "," (L.map bb_str [Attacks.knight_attacks s; Attacks.king_attacks s;
                                        Attacks.pawn_attacks true s; Attacks.pawn_attacks false s])
  | "fenrt", [fen] ->
    (match Text.fen_read (codepoints (unescape fen)) with
     | Text.Ok s -> "ok " ^ model_fen s
     | Text.Err -> "err"
     | Text.Panic k -> "panic " ^ string_of_int (int_of_n k))
  | _ -> "unknown-command"

let () =
  (try
    while true do
      let line = input_line stdin in
      match String.split_on_char '\t' line with
      | id :: cmd :: args ->
        let out = (try run cmd args with e -> "exception " ^ Printexc.to_string e) in
        print_string id; print_char '\t'; print_string out; print_newline ()
      | _ -> ()
    done
  with End_of_file -> ())
