"""Seeded case generators: positions (corpus, spec playouts, small families, random placements),
strings, operation sequences.  Every random choice derives from the one seed passed in."""
import random, os
from wvlib import run_cases, VERIF

MODEL = f'{VERIF}/ocaml/model_run'
START = 'rnbqkbnr/pppppppp/8/8/8/8/PPPPPPPP/RNBQKBNR w KQkq - 0 1'

CORPUS_FENS = [
    START,
    # castling that gives check / mate (the text carries '+' / '#' after O-O / O-O-O), both castles legal or only one
    '3k4/8/8/8/8/8/8/R3K2R w KQ - 0 1', '2rkr3/2p1p3/8/8/8/8/8/R3K3 w Q - 0 1', 'r3k2r/8/8/8/8/8/8/3K4 b kq - 0 1',
    '5k2/8/8/8/8/8/8/R3K2R w KQ - 0 1', 'r3k2r/8/8/8/8/8/8/5K2 b kq - 0 1', 'r3k3/8/8/8/8/8/2P1P3/2RKR3 b q - 0 1',
    'r3k2r/p1ppqpb1/bn2pnp1/3PN3/1p2P3/2N2Q1p/PPPBBPPP/R3K2R w KQkq - 0 1',
    '8/2p5/3p4/KP5r/1R3p1k/8/4P1P1/8 w - - 0 1',
    'r3k2r/Pppp1ppp/1b3nbN/nP6/BBP1P3/q4N2/Pp1P2PP/R2Q1RK1 w kq - 0 1',
    'r2q1rk1/pP1p2pp/Q4n2/bbp1p3/Np6/1B3NBn/pPPP1PPP/R3K2R b KQ - 0 1',
    'rnbq1k1r/pp1Pbppp/2p5/8/2B5/8/PPP1NnPP/RNBQK2R w KQ - 1 8',
    'r4rk1/1pp1qppp/p1np1n2/2b1p1B1/2B1P1b1/P1NP1N2/1PP1QPPP/R4RK1 w - - 0 10',
    # en passant: discovered check along the rank (capture illegal), capture of the checking pawn (legal)
    '8/8/8/KPp4r/8/8/8/4k3 w - c6 0 2',
    '8/8/8/2k5/3Pp3/8/8/4K3 b - d3 0 1',
    '8/8/3p4/1Pp4r/1K3p2/6k1/4P1P1/1R6 w - c6 0 3',
    '4k3/8/8/8/1pP5/8/8/4K2b b - c3 0 1',
    'k7/8/8/8/2pP4/8/8/K5b1 b - d3 0 1',
    '4k3/8/8/3pP3/8/8/8/4K3 w - d6 0 2',
    '4k3/8/8/8/3Pp3/8/8/4K3 b - d3 0 1',
    # castling: through / out of / into attack, b-file attacked (queen side still legal), after rook capture
    'r3k2r/8/8/8/8/8/8/R3K2R w KQkq - 0 1',
    'r3k2r/8/8/8/8/8/8/R3K2R b KQkq - 0 1',
    '4kr2/8/8/8/8/8/8/R3K2R w KQ - 0 1',
    '1r2k3/8/8/8/8/8/8/R3K2R w KQ - 0 1',
    '3rk3/8/8/8/8/8/8/R3K2R w KQ - 0 1',
    '4k3/8/8/8/8/8/4r3/R3K2R w KQ - 0 1',
    'r3k2r/8/8/8/8/8/6B1/R3K2R b KQkq - 0 1',
    'r3k2r/8/8/8/8/6n1/8/R3K2R w KQkq - 0 1',
    'r3k2r/1B6/8/8/8/8/8/R3K2R w KQkq - 0 1',
    'rn2k2r/8/8/8/8/8/8/RN2K2R w KQkq - 0 1',
    # promotions with and without capture, both colours, onto corners holding rooks with rights
    'rn2k3/1P6/8/8/8/8/1p6/RN2K3 w Qq - 0 1',
    'rn2k3/1P6/8/8/8/8/1p6/RN2K3 b Qq - 0 1',
    'r3k2r/1P4P1/8/8/8/8/1p4p1/R3K2R w KQkq - 0 1',
    'r3k2r/1P4P1/8/8/8/8/1p4p1/R3K2R b KQkq - 0 1',
    '4k3/P6P/8/8/8/8/p6p/4K3 w - - 0 1',
    # checks, double check, pins
    '4k3/8/8/8/7b/5n2/8/4K3 w - - 0 1',
    '4k3/4r3/8/8/8/8/4R3/4K3 w - - 0 1',
    'k3r3/8/8/8/1b6/8/3NB3/4K3 w - - 0 1',
    '3qk3/8/8/8/8/8/3PPP2/3QKB2 w - - 0 1',
    # many moves
    'R6R/3Q4/1Q4Q1/4Q3/2Q4Q/Q4Q2/pp1Q4/kBNN1KB1 w - - 0 1',
    # mates and stalemates (terminal)
    '3R2k1/5ppp/8/8/8/8/8/4K3 b - - 0 1',
    '7k/5Q2/6K1/8/8/8/8/8 b - - 0 1',
    '7k/5K2/6Q1/8/8/8/8/8 b - - 0 1',
    'k7/8/1K6/8/8/8/8/7R b - - 0 1',
    '8/8/8/1P6/8/3p4/p1pP4/k1K5 w - - 0 1',
    '4k3/8/8/8/8/8/8/4K2R w K - 99 4294967296',
]

# counters at the usize limit: the code saturates (fix F9); the unbounded spec is not comparable there, so these
# are compared against the implementation model only (C02_clock_saturates)
COUNTER_FENS = [
    '4k3/8/8/8/8/8/8/4K2R w K - 99 18446744073709551615',
    '4k3/8/8/8/8/8/8/4K2R b - - 18446744073709551615 18446744073709551615',
    '4k3/8/8/8/8/8/8/4K2R b K - 18446744073709551614 18446744073709551614',
    '4k3/8/8/8/8/8/8/4K2R w K - 18446744073709551614 4294967296',
]

def corpus():
    extra = []
    p = f'{VERIF}/corpus/fens.txt'
    if os.path.exists(p):
        extra = [l.strip() for l in open(p) if l.strip() and not l.startswith('#')]
    return CORPUS_FENS + extra

def playout_positions(seed, n_playouts, plies, roots=None, tag='playouts'):
    """positions visited by seeded playouts through the SPEC (independent of the code under test)"""
    rnd = random.Random(seed)
    roots = roots or corpus()
    lines = []
    for i in range(n_playouts):
        root = roots[i % len(roots)] if i < len(roots) else rnd.choice(roots)
        lines.append('specplayout\t%d\t%d\t%s' % (rnd.randrange(1 << 30), plies, root))
    res = run_cases(MODEL, lines, tag)
    out = []
    for r in res:
        if r:
            out.extend(x for x in r.split(';') if x)
    return out

PIECES = 'PNBRQ'

def fen_from_map(m, turn, rights='-', ep='-', half=0, full=1):
    rows = []
    for r in range(7, -1, -1):
        row = ''
        e = 0
        for f in range(8):
            c = m.get(r * 8 + f)
            if c:
                if e:
                    row += str(e); e = 0
                row += c
            else:
                e += 1
        if e:
            row += str(e)
        rows.append(row)
    return '%s %s %s %s %d %d' % ('/'.join(rows), turn, rights, ep, half, full)

def small_family(rnd, extra, count):
    """random placements K + k + the given extra pieces (string of piece letters), both sides to move;
    legality is filtered afterwards by the spec's legal_pos"""
    out = []
    for _ in range(count):
        sqs = rnd.sample(range(64), 2 + len(extra))
        m = {sqs[0]: 'K', sqs[1]: 'k'}
        ok = True
        for s, c in zip(sqs[2:], extra):
            if c in 'Pp' and (s < 8 or s >= 56):
                ok = False
            m[s] = c
        if ok:
            out.append(fen_from_map(m, rnd.choice('wb')))
    return out

def random_placements(rnd, count):
    """random material, possibly promotion-inconsistent (e.g. many queens); filtered by legal_pos later"""
    out = []
    for _ in range(count):
        n = rnd.randrange(1, 14)
        extra = ''.join(rnd.choice('PNBRQpnbrq') for _ in range(n))
        out.extend(small_family(rnd, extra, 1))
    return out

def filter_legal(fens, tag='legalpos'):
    res = run_cases(MODEL, ['legalpos\t' + f for f in fens], tag)
    return [f for f, r in zip(fens, res) if r == '1']

def exhaustive_3man(kind, turn):
    """all placements of K, k and one more piece"""
    out = []
    for a in range(64):
        for b in range(64):
            if a == b:
                continue
            for c in range(64):
                if c == a or c == b:
                    continue
                if kind in 'Pp' and (c < 8 or c >= 56):
                    continue
                out.append(fen_from_map({a: 'K', b: 'k', c: kind}, turn))
    return out

def ep_family():
    """every en-passant situation by colour, target file and which neighbours can capture (left only, right only, both, none):
    kings g1/g8, the pawn that has just made its double step, and the capturing pawns beside it"""
    out = []
    for stm in 'wb':
        for f in range(8):
            for caps in ((-1,), (1,), (-1, 1), ()):
                if any(not 0 <= f + d <= 7 for d in caps):
                    continue
                m = {6: 'K', 62: 'k'}
                if stm == 'w':      # Black has just played f7-f5: target on rank 6, White captures from rank 5
                    m[32 + f] = 'p'
                    for d in caps: m[32 + f + d] = 'P'
                    target = 'abcdefgh'[f] + '6'
                else:               # White has just played f2-f4: target on rank 3, Black captures from rank 4
                    m[24 + f] = 'P'
                    for d in caps: m[24 + f + d] = 'p'
                    target = 'abcdefgh'[f] + '3'
                if len(set(m)) != len(m):
                    continue
                fen = fen_from_map(m, stm)
                p = fen.split(' ')
                out.append(' '.join([p[0], p[1], '-', target, '0', '1']))
    return out

def positions(seed, tier, tag, n_playouts=None, plies=None, n_small=None):
    """the standard mixed position stream: corpus, playouts, small families, random placements (all LegalPos)"""
    rnd = random.Random(seed)
    quick = tier == 'quick'
    n_playouts = n_playouts if n_playouts is not None else (48 if quick else 600)
    plies = plies if plies is not None else (60 if quick else 200)
    n_small = n_small if n_small is not None else (300 if quick else 6000)
    pos = list(corpus()) + ep_family()
    pos += playout_positions(rnd.randrange(1 << 30), n_playouts, plies, tag=tag + '-po')
    fam = []
    for extra in ['Q', 'R', 'P', 'p', 'B', 'N', 'QR', 'Pp', 'RP', 'qP', 'NBp', 'RRq', 'PPpp']:
        fam += small_family(rnd, extra, n_small // 13 + 1)
    fam += random_placements(rnd, n_small // 2)
    pos += filter_legal(fam, tag + '-lp')
    # dedupe, keep order
    seen = set(); out = []
    for f in pos:
        if f not in seen:
            seen.add(f); out.append(f)
    return out

# ------------------------------------------------------------------ strings
WS = [9, 10, 11, 12, 13, 32, 0x85, 0xA0, 0x1680] + list(range(0x2000, 0x200B)) + [0x2028, 0x2029, 0x202F, 0x205F, 0x3000]
UNI_DIGITS = [0x661, 0x6F2, 0x966, 0xFF13, 0x1D7D8, 0x0BEF]
ODD = [0x200B, 0xE9, 0x4E2D, 0x1F600, 0x7F, 0, 0x2F, 0x7C, 0x2D]

def esc(s):
    """escape for the line protocol: tab/newline/non-ASCII as \\x{HEX}"""
    out = []
    for ch in s:
        o = ord(ch)
        if o < 32 or o > 126 or ch == '\\':
            out.append('\\x{%X}' % o)
        else:
            out.append(ch)
    return ''.join(out)

def mutate_fen(rnd, fen):
    parts = fen.split(' ')
    k = rnd.randrange(22)
    if len(parts) != 6 or len(parts[0].split('/')) != 8 or len(fen) == 0:
        k = rnd.choice([8, 14, 19, 20]) if len(fen) else 19
    if k == 0:    # field count
        n = rnd.randrange(0, 9); parts = (parts * 2)[:n]
    elif k == 1:  # over-long rank / digit flood in placement
        rows = parts[0].split('/'); i = rnd.randrange(8)
        rows[i] = rows[i] + ''.join(rnd.choice('12345678') for _ in range(rnd.randrange(1, 70))); parts[0] = '/'.join(rows)
    elif k == 2:  # all-digit placement of given length (u8 cursor)
        parts[0] = '/'.join(''.join(rnd.choice('8765') for _ in range(rnd.randrange(1, 12))) for _ in range(8))
    elif k == 3:  # pieces beyond square 63
        parts[0] = parts[0] + rnd.choice(['P', 'k', '8P', '88p', 'PPPPPPPPP'])
    elif k == 4:  # rank count
        rows = parts[0].split('/'); n = rnd.randrange(1, 12); parts[0] = '/'.join((rows * 2)[:n])
    elif k == 5:  # counters: huge, around 2^64, leading zeros, empty, signs
        parts[rnd.choice([4, 5])] = rnd.choice(['18446744073709551615', '18446744073709551616', '99999999999999999999999', '007', '', '+5', '-1', '1e3', '0x10', '4294967296'])
    elif k == 6:  # separators: unicode whitespace, doubled, tab
        sep = chr(rnd.choice(WS)); return sep.join(parts) if rnd.random() < 0.7 else fen.replace(' ', sep + sep, 1)
    elif k == 7:  # unicode digits in counters
        parts[rnd.choice([4, 5])] = ''.join(chr(rnd.choice(UNI_DIGITS)) for _ in range(rnd.randrange(1, 4)))
    elif k == 8:  # multi-byte characters at random position
        i = rnd.randrange(len(fen) + 1); return fen[:i] + chr(rnd.choice(ODD)) + fen[i:]
    elif k == 9:  # the '|' alternatives the regex lets through
        parts[rnd.choice([1, 2])] = rnd.choice(['|', 'K|', '|q', 'KQ|q', '||||', 'w|'])
    elif k == 10: # castle field oddities
        parts[2] = rnd.choice(['KQkqK', 'qkQK', 'KK', 'kk', '-K', 'K-', '--', 'QQQQ', 'A', 'kqKQ', 'Kk'])
    elif k == 11: # ep oddities
        parts[3] = rnd.choice(['a9', 'i3', 'A3', 'e', 'e33', 'h8', 'a1', '--', 'E6', 'b0'])
    elif k == 12: # delete a char
        i = rnd.randrange(len(fen)); return fen[:i] + fen[i + 1:]
    elif k == 13: # duplicate a char
        i = rnd.randrange(len(fen)); return fen[:i] + fen[i] + fen[i:]
    elif k == 14: # trailing / leading junk
        return rnd.choice([fen + ' ', ' ' + fen, fen + '\n', fen + ' 0', fen + chr(0x2028)])
    elif k == 15: # empty rank or double slash
        parts[0] = parts[0].replace('/', '//', 1) if rnd.random() < 0.5 else parts[0].replace('8', '', 1)
    elif k == 16: # ranks not summing to 8 (accepted by the reader)
        rows = parts[0].split('/'); i = rnd.randrange(8); rows[i] = rnd.choice(['1', '7p', 'pp', '44', 'P6P1', '9']); parts[0] = '/'.join(rows)
    elif k == 17: # lower/upper confusion, bad piece letters
        parts[0] = parts[0].replace(rnd.choice('pnbrqkPNBRQK'), rnd.choice('xXoO0 9'), 1)
    elif k == 18: # turn oddities
        parts[1] = rnd.choice(['W', 'B', 'wb', '', 'x', '-'])
    elif k == 19: # random printable string
        return ''.join(chr(rnd.randrange(32, 127)) for _ in range(rnd.randrange(0, 60)))
    elif k == 20: # random code points
        return ''.join(chr(rnd.choice([rnd.randrange(1, 0x250), rnd.choice(WS), rnd.choice(ODD), rnd.randrange(0x10000, 0x10100)])) for _ in range(rnd.randrange(0, 40)))
    else:
        pass      # unmutated
    return ' '.join(parts)

def fen_strings(seed, fens, count):
    rnd = random.Random(seed)
    out = []
    for i in range(count):
        f = rnd.choice(fens)
        s = mutate_fen(rnd, f)
        if rnd.random() < 0.15:
            s = mutate_fen(rnd, s)
        out.append(s)
    # fixed adversarial strings (corpus of past findings)
    out += ['8' * 32 + '/8/8/8/8/8/8/8 w - - 0 1', '8' * 31 + '7/8/8/8/8/8/8/8 w - - 0 1',
            '8/8/8/8/8/8/8/' + '8' * 40 + ' w - - 0 1', '', ' ', 'rnbqkbnr/pppppppp/8/8/8/8/PPPPPPPP/RNBQKBNR w KQkq - 0',
            'rnbqkbnr/pppppppp/8/8/8/8/PPPPPPPP/RNBQKBNR w KQkq - 0 1 ', '8/8/8/8/8/8/8/7' + 'P' * 3 + ' w - - 0 1',
            '1/1/1/1/1/1/1/1 w - - 0 1', 'k/K/1/1/1/1/1/1 b | - 1 1', '8/8/8/8/8/8/8/8 | - - 0 1', '8/8/8/8/8/8/8/8 w | - 0 1',
            '8/8/8/8/8/8/8/8 w K-q - 0 1', '8/8/8/8/8/8/8/8 w - H8 0 1', '8/8/8/8/8/8/8/8 w - h8 00 01']
    return out
