#!/usr/bin/env python3
"""prints the DESIGN.md section-12 table rows for the seeded changes of a given round (from seeded/*/meta.json)"""
import json, os, sys
rnd = int(sys.argv[1]) if len(sys.argv) > 1 else None
rows = []
for d in sorted(os.listdir('/verif/seeded')):
    p = '/verif/seeded/%s/meta.json' % d
    if not os.path.exists(p):
        continue
    m = json.load(open(p))
    if rnd is not None and m.get('round', 1) != rnd:
        continue
    def cut(x, n):
        x = ' '.join(str(x).split()).replace('|', '/')
        return x if len(x) <= n else x[:n]
    rows.append('| %s | %s | %s | %s |' % (d, cut(m.get('summary', ''), 330), cut(m.get('needs', ''), 220), cut('; '.join(m.get('verif_caught_by', ['(not yet run)'])), 400)))
print('\n'.join(rows))
