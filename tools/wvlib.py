"""Shared machinery of the checks: regeneration, proof build, model/harness build, sharded execution of
case files on the real code (wv_harness) and on the extracted Coq model/spec (model_run), diffing,
evidence and violation reporting."""
import os, sys, re, json, time, hashlib, subprocess, random, shutil

VERIF = '/verif'
REPO = '/repo'
COQ = f'{VERIF}/coq'
WORK = f'{VERIF}/work'
CACHE = f'{VERIF}/.cache'
NPROC = 16
ENV = dict(os.environ, CARGO_NET_OFFLINE='true')

FORBIDDEN = r'\b(Admitted|admit|Axiom|Axioms|Parameter|Parameters|Conjecture|Admit Obligations)\b|Unset Guard|bypass_check|type-in-type|impredicative-set|Unset Universe Checking|Unset Positivity'
REAL_AXIOMS = ['ClassicalDedekindReals.sig_forall_dec', 'ClassicalDedekindReals.sig_not_dec',
               'FunctionalExtensionality.functional_extensionality_dep', 'Classical_Prop.classic']
ALLOWED_AXIOMS = {
    # per theorem allow-list; default: none ("Closed under the global context").
    # props/C13_f32.v: agreement of the f32 model with Flocq's round-to-nearest-even; Flocq and Reals rest on the standard
    # library's real-number axioms, named here and in the file
    **{n: REAL_AXIOMS for n in ['C13_f32_rnd_mag', 'C13_f32_rnd', 'C13_f32_rnd_FLT', 'C13_f32_mul', 'C13_f32_add', 'C13_f32_sub',
                                'C13_f32_div', 'C13_f32_of_Z', 'C13_f32_of_dec']},
}

def sh(cmd, timeout=1200, cwd=VERIF, env=None, stdin=None):
    t0 = time.time()
    try:
        p = subprocess.run(cmd, shell=isinstance(cmd, str), cwd=cwd, env=env or ENV, input=stdin,
                           stdout=subprocess.PIPE, stderr=subprocess.STDOUT, timeout=timeout, text=True)
        return p.returncode, p.stdout, time.time() - t0
    except subprocess.TimeoutExpired as e:
        out = e.stdout if isinstance(e.stdout, str) else (e.stdout or b'').decode('utf-8', 'replace')
        return 124, out + '\nTIMEOUT', time.time() - t0

def tree_hash(paths):
    h = hashlib.sha256()
    for p in sorted(paths):
        if os.path.isdir(p):
            for root, _, files in sorted(os.walk(p)):
                for f in sorted(files):
                    if f.endswith(('.v', '.ml', '.rs', '.toml', '.lock', '.sh')):
                        fp = os.path.join(root, f)
                        h.update(fp.encode()); h.update(open(fp, 'rb').read())
        elif os.path.exists(p):
            h.update(p.encode()); h.update(open(p, 'rb').read())
    return h.hexdigest()

# ------------------------------------------------------------------ steps
def regenerate():
    rc, out, _ = sh(['python3', f'{VERIF}/tools/extract.py', '--repo', REPO, '--out', VERIF], timeout=120)
    return rc == 0, out.strip()

def ensure_makefile():
    mk = f'{COQ}/Makefile'
    cp = f'{COQ}/_CoqProject'
    if not os.path.exists(mk) or os.path.getmtime(mk) < os.path.getmtime(cp):
        sh('coq_makefile -f _CoqProject -o Makefile', cwd=COQ, timeout=60)

def coq_make(targets, timeout=3000):
    """full .vo build of the targets (never -vos). Returns (ok, log, seconds)"""
    ensure_makefile()
    rc, out, dt = sh(['make', '-j%d' % NPROC] + targets, cwd=COQ, timeout=timeout)
    return rc == 0, out, dt

def prop_files(prop):
    """props/Cxx.v and props/Cxx_*.v that are registered in _CoqProject"""
    reg = open(f'{COQ}/_CoqProject').read().split()
    return [x for x in reg if re.fullmatch(r'props/%s(_\w+)?\.v' % prop, x)]

def theorem_names(prop):
    names = []
    for rel in prop_files(prop):
        src = open(f'{COQ}/{rel}').read()
        for n in re.findall(r'^\s*(?:Theorem|Lemma|Example)\s+(%s_\w+)' % prop, src, re.M):
            if n not in names:
                names.append(n)
    return names

def forbidden_scan():
    hits = []
    for root, _, files in os.walk(COQ):
        for f in files:
            if f.endswith('.v'):
                p = os.path.join(root, f)
                txt = open(p, encoding='utf-8').read()
                # strip comments (non-nested approximation, applied repeatedly for nesting)
                prev = None
                while prev != txt:
                    prev = txt
                    txt = re.sub(r'\(\*(?:(?!\(\*|\*\)).)*\*\)', ' ', txt, flags=re.S)
                for m in re.finditer(FORBIDDEN, txt):
                    hits.append('%s: %s' % (os.path.relpath(p, COQ), m.group(0)))
                for m in re.finditer(r'^\s*(Variable|Variables|Hypothesis|Hypotheses|Context)\b', txt, re.M):
                    # allowed only inside a Section
                    before = txt[:m.start()]
                    depth = len(re.findall(r'^\s*Section\s+\w+', before, re.M)) - len(re.findall(r'^\s*End\s+\w+\s*\.', before, re.M))
                    mods = len(re.findall(r'^\s*Module\s+(?!Type\b)\w+[^:=\n]*\.\s*$', before, re.M))
                    if depth - 0 <= 0:
                        hits.append('%s: top-level %s' % (os.path.relpath(p, COQ), m.group(1)))
    return hits

def print_assumptions(prop, names):
    """returns dict name -> list of axioms ([] = closed)"""
    os.makedirs(f'{WORK}/{prop}', exist_ok=True)
    q = f'{WORK}/{prop}/assum.v'
    with open(q, 'w') as f:
        for rel in prop_files(prop):
            f.write('From WV Require Import %s.\n' % os.path.basename(rel)[:-2])
        for n in names:
            f.write('Goal True. idtac "@@ %s". exact I. Qed.\nPrint Assumptions %s.\n' % (n, n))
    rc, out, _ = sh(['coqc', '-Q', 'gen', 'WV', '-Q', 'model', 'WV', '-Q', 'spec', 'WV', '-Q', 'proofs', 'WV',
                     '-Q', 'props', 'WV', '-o', f'{WORK}/{prop}/assum.vo', q], cwd=COQ, timeout=900)
    res = {}
    if rc != 0:
        return None, out
    cur = None
    for line in out.splitlines():
        m = re.match(r'@@ (\w+)', line)
        if m:
            cur = m.group(1); res[cur] = None
            continue
        if cur is None:
            continue
        if 'Closed under the global context' in line:
            res[cur] = []
        elif line.startswith('Axioms:'):
            res[cur] = []
        elif re.match(r'^[\w.]+\s*:', line) and res.get(cur) is not None:
            res[cur].append(line.split(':')[0].strip())
    return res, out

def build_model():
    key = tree_hash([f'{COQ}/gen', f'{COQ}/model', f'{COQ}/spec', f'{COQ}/extract', f'{VERIF}/ocaml/model_run.ml', f'{VERIF}/ocaml/build.sh'])
    stamp = f'{CACHE}/model.key'
    os.makedirs(CACHE, exist_ok=True)
    if os.path.exists(stamp) and open(stamp).read() == key and os.path.exists(f'{VERIF}/ocaml/model_run'):
        return True, 'cached'
    # extraction needs the compiled model
    ok, log, _ = coq_make(['spec/Abs.vo', 'spec/FenSpec.vo', 'model/Table.vo', 'model/Eval.vo', 'spec/SanSpec.vo', 'model/Search.vo', 'model/Uci.vo', 'model/Book.vo', 'spec/GameValue.vo'] + EXTRA_MODEL_TARGETS)
    if not ok:
        return False, log[-3000:]
    rc, out, _ = sh([f'{VERIF}/ocaml/build.sh'], timeout=900)
    if rc != 0 or not os.path.exists(f'{VERIF}/ocaml/model_run'):
        return False, out[-3000:]
    open(stamp, 'w').write(key)
    return True, out[-500:]

EXTRA_MODEL_TARGETS = ['model/Conc.vo']

def build_harness(profile='chk'):
    env = dict(ENV, RUSTFLAGS='--cfg weechess_verif')
    rc, out, dt = sh(['cargo', 'build', '--offline', '--profile', profile], cwd=f'{VERIF}/harness', env=env, timeout=2400)
    binp = f'{VERIF}/harness/target/{profile}/wv_harness'
    return rc == 0 and os.path.exists(binp), out[-4000:], binp

def run_cases(binary, lines, tag, shards=NPROC, timeout=3000, prelude=None):
    """lines: list of 'cmd\\targs'. Returns list of results aligned with lines (None if missing)."""
    d = f'{WORK}/{tag}'
    os.makedirs(d, exist_ok=True)
    n = len(lines)
    if n == 0:
        return []
    shards = max(1, min(shards, n))
    procs = []
    for k in range(shards):
        path = f'{d}/in{k}.txt'
        with open(path, 'w', encoding='utf-8') as f:
            for pl in (prelude or []):
                f.write('p\t' + pl + '\n')
            for i in range(k, n, shards):
                f.write('%d\t%s\n' % (i, lines[i]))
        fo = open(f'{d}/out{k}.txt', 'w', encoding='utf-8')
        procs.append((subprocess.Popen([binary], stdin=open(path, encoding='utf-8'), stdout=fo, stderr=subprocess.DEVNULL, env=ENV), fo))
    t0 = time.time()
    for p, fo in procs:
        try:
            p.wait(timeout=max(1, timeout - (time.time() - t0)))
        except subprocess.TimeoutExpired:
            p.kill()
        fo.close()
    res = [None] * n
    for k in range(shards):
        with open(f'{d}/out{k}.txt', encoding='utf-8', errors='replace') as f:
            for line in f:
                line = line.rstrip('\n')
                if '\t' not in line:
                    continue
                i, r = line.split('\t', 1)
                if i.isdigit() and int(i) < n:
                    res[int(i)] = r
    return res

# ------------------------------------------------------------------ reporting
class Check:
    def __init__(self, prop, tier, seed):
        self.prop, self.tier, self.seed = prop, tier, seed
        self.t0 = time.time()
        self.obligations = []       # (name, ok, detail)
        self.streams = []           # dicts
        self.violations = []        # dicts
        self.known = []
        self.notes = []
        self.samples = []
        self.trusted = []
        self.assumptions = []
        self.evaluations = 0
        self.distinct = set()
        self.rule = ''
        self.extra = {}

    def oblig(self, name, ok, detail=''):
        self.obligations.append({'name': name, 'ok': bool(ok), 'detail': detail[-600:] if detail else ''})

    def violation(self, what, replay, found_input=True):
        self.violations.append({'what': what, 'replay': replay, 'found_input': found_input})

def known_findings(prop):
    path = f'{VERIF}/KNOWN_FINDINGS.txt'
    out = []
    if os.path.exists(path):
        for line in open(path):
            line = line.strip()
            m = re.match(r'finding: property=(\w+) key=(\S+) (.*)', line)
            if m and m.group(1) == prop:
                out.append({'key': m.group(2), 'what': m.group(3)})
    return out

def manifest_level(prop):
    try:
        m = json.load(open(f'{VERIF}/MANIFEST.json'))
        for c in m['checks']:
            if c['property_id'] == prop:
                return c['level_claimed']['category']
    except Exception:
        pass
    return 'proof'

def finish(chk, level=None, checker_cmd=''):
    """write evidence, print VIOLATION / KNOWN-FINDING lines, exit"""
    level = level or manifest_level(chk.prop)
    os.makedirs(f'{VERIF}/evidence', exist_ok=True)
    os.makedirs(f'{VERIF}/replay', exist_ok=True)
    kf = known_findings(chk.prop)
    real = []
    for v in chk.violations:
        key = v.get('replay', {}).get('key')
        hit = [k for k in kf if key and k['key'] == key]
        if hit:
            print('KNOWN-FINDING: property=%s %s' % (chk.prop, hit[0]['what']))
            chk.known.append(hit[0])
        else:
            real.append(v)
    obl = len(chk.obligations)
    dis = sum(1 for o in chk.obligations if o['ok'])
    ev = {
        'property_id': chk.prop, 'tier': chk.tier, 'seed': chk.seed, 'level': level,
        'coverage': {
            'obligations': max(obl, 0), 'discharged': dis,
            'checker_cmd': checker_cmd or 'make -C /verif/coq props/%s.vo (full .vo build) + coqc Print Assumptions + forbidden-construct grep' % chk.prop,
            'trusted_base': chk.trusted,
            'obligation_list': chk.obligations,
            'evaluations': chk.evaluations, 'distinct_nontrivial': len(chk.distinct),
            'rule': chk.rule, 'samples': chk.samples[:12] or ['(none)'],
            'streams': chk.streams, 'traces_validated_against_impl': chk.evaluations,
            'programs': max(1, chk.evaluations), 'disagreements_checked': sum(x.get('disagreements', 0) for x in chk.streams),
            'notes': chk.notes,
        },
        'assumptions': chk.assumptions,
        'wall_s': round(time.time() - chk.t0, 2),
        'violations': len(real),
    }
    ev['coverage'].update(chk.extra)
    with open(f'{VERIF}/evidence/{chk.prop}.json', 'w') as f:
        json.dump(ev, f, indent=1)
    if real:
        v = real[0]
        h = hashlib.sha1(json.dumps(v, sort_keys=True, default=str).encode()).hexdigest()[:10]
        path = f'{VERIF}/replay/{chk.prop}-{h}.json'
        with open(path, 'w') as f:
            json.dump({'property': chk.prop, 'tier': chk.tier, 'seed': chk.seed, 'violations': real,
                       'failed_obligations': [o for o in chk.obligations if not o['ok']]}, f, indent=1, default=str)
        suffix = '' if any(x['found_input'] for x in real) else ' no-failing-input-found'
        for x in real[:5]:
            print('  violation:', x['what'][:300])
        print('VIOLATION property=%s replay=%s%s' % (chk.prop, path, suffix))
        sys.exit(1)
    print('OK property=%s tier=%s obligations=%d/%d evaluations=%d wall=%.1fs' % (chk.prop, chk.tier, dis, obl, chk.evaluations, time.time() - chk.t0))
    sys.exit(0)
