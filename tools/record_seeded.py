#!/usr/bin/env python3
"""record_seeded.py <seeded id> <round> <caught-by text>: add the verification outcome to seeded/<id>/meta.json"""
import json, sys, os
sd, rnd, caught = sys.argv[1], int(sys.argv[2]), sys.argv[3]
p = '/verif/seeded/%s/meta.json' % sd
m = json.load(open(p))
m['round'] = rnd
m['verif_caught_by'] = [caught]
conf = '/var/tmp/conf-%s.log' % sd
if os.path.exists(conf):
    m['verif_confirmation'] = 'tools/confirm_seeded.sh (scratch worktree): ' + ' | '.join(l.strip() for l in open(conf) if l.strip())
json.dump(m, open(p, 'w'), indent=1)
print(sd, 'recorded')
