"""Per-property correspondence streams and violation searches (DESIGN.md sections 4-6)."""
import os, random, json, time, re
import wvlib
from wvlib import run_cases, VERIF, COQ, sh
import gen_cases as G

MODEL = f'{VERIF}/ocaml/model_run'
PROFILE = {}     # property -> cargo profile of the harness ('chk' by default)

def stream(chk, name, cases, impl, other, label, norm_impl=None, norm_other=None, classify=None, max_report=3):
    """compare impl[i] with other[i]; record stats; return list of mismatching indices"""
    bad = []
    for i, (a, b) in enumerate(zip(impl, other)):
        a2 = norm_impl(a) if (norm_impl and a is not None) else a
        b2 = norm_other(b) if (norm_other and b is not None) else b
        if a2 is None or b2 is None or a2 != b2:
            bad.append(i)
    chk.streams.append({'name': name, 'against': label, 'cases': len(cases), 'disagreements': len(bad)})
    chk.evaluations += len(cases)
    return bad

def first_diff(a, b, sep=';'):
    sa, sb = set((a or '').split(sep)), set((b or '').split(sep))
    return {'only_in_code': sorted(sa - sb)[:4], 'only_in_reference': sorted(sb - sa)[:4]}

def coqchk_step(chk, prop):
    rc, out, dt = sh(['coqchk', '-silent', '-o', '-Q', 'gen', 'WV', '-Q', 'model', 'WV', '-Q', 'spec', 'WV', '-Q', 'proofs', 'WV',
                      '-Q', 'props', 'WV', 'WV.%s' % prop], cwd=COQ, timeout=3000)
    ax = re.findall(r'^\s+([\w.]+)\s*$', out.split('Axioms:')[-1], re.M) if 'Axioms:' in out else []
    ok = rc == 0 and ('Axioms: <none>' in out.replace('\n', ' ') or not ax)
    chk.oblig('coqchk -o re-check of props/%s.vo and its closure' % prop, ok, out[-600:])
    if not ok:
        chk.violation('coqchk rejects or reports axioms for %s: %s' % (prop, out[-400:]), {'coqchk': out[-1500:]}, found_input=False)

# ------------------------------------------------------------------ move-generation observables
def strip_raw(out):
    """'raw/from/to/...=fen;...' -> sorted 'from/to/...=fen' (the spec has no raw encoding)"""
    if out in (None, '', 'badfen'):
        return out
    items = [x.split('/', 1)[1] for x in out.split(';')]
    return ';'.join(sorted(items))

def movegen_features(fen, out):
    """which rule features a position exercised (for the evidence distribution)"""
    f = set()
    if out in (None, ''):
        f.add('terminal'); return f
    for it in out.split(';'):
        a = it.split('=')[0].split('/')
        if len(a) < 10:
            continue
        if a[3] != '0': f.add('promotion')
        if a[3] != '0' and a[6] != '0': f.add('promotion-capture')
        if a[7] == '1': f.add('en-passant')
        if a[8] == '1': f.add('castle-king-side')
        if a[8] == '2': f.add('castle-queen-side')
        if a[9] == '1': f.add('double-step')
        if a[6] != '0': f.add('capture')
    parts = fen.split(' ')
    if parts[3] != '-': f.add('ep-target-set')
    if parts[2] != '-': f.add('castling-rights')
    return f

def check_movegen(chk, binp, prop):
    quick = chk.tier == 'quick'
    pos = G.positions(chk.seed, chk.tier, prop)
    rnd = random.Random(chk.seed + 1)
    gen_cases = ['gen\t' + f for f in pos]
    impl = run_cases(binp, gen_cases, prop + '-gen-impl')
    model = run_cases(MODEL, gen_cases, prop + '-gen-model')
    spec = run_cases(MODEL, ['specgen\t' + f for f in pos], prop + '-gen-spec')
    bad_m = stream(chk, 'legal move set with attributes and successor FEN', gen_cases, impl, model, 'extracted implementation model (gen_legal)')
    bad_s = stream(chk, 'legal move set with attributes and successor FEN', gen_cases, impl, spec, 'extracted rules specification (Rules.legal_moves/apply)', norm_impl=strip_raw)
    feats = {}
    for f, o in zip(pos, impl):
        for x in movegen_features(f, o):
            feats[x] = feats.get(x, 0) + 1
        chk.distinct.add(f.rsplit(' ', 2)[0])
    chk.extra['feature_counts'] = feats
    chk.extra['piece_count_histogram'] = hist([sum(c.isalpha() for c in f.split(' ')[0]) for f in pos])
    # perft
    d = 2 if quick else 3
    psel = pos if quick else pos
    psel = psel[:400] if quick else psel[:3000]
    pc = ['perft\t%d\t%s' % (d, f) for f in psel]
    pimpl = run_cases(binp, pc, prop + '-perft-impl')
    pmodel = run_cases(MODEL, pc, prop + '-perft-model')
    bad_p = stream(chk, 'perft node counts depth %d' % d, pc, pimpl, pmodel, 'extracted implementation model (perft)')
    sd = 2
    spc = psel[:150] if quick else psel[:1000]
    pspec = run_cases(MODEL, ['specperft\t%d\t%s' % (sd, f) for f in spc], prop + '-perft-spec')
    pimpl2 = run_cases(binp, ['perft\t%d\t%s' % (sd, f) for f in spc], prop + '-perft-impl2')
    bad_ps = stream(chk, 'perft node counts depth %d' % sd, spc, pimpl2, pspec, 'extracted rules specification (Rules.perft)')
    chk.samples += [{'fen': pos[i], 'code': (impl[i] or '')[:160]} for i in range(0, min(len(pos), 3))]
    chk.rule = ('positions = adversarial corpus + seeded playouts through the extracted SPEC (special moves preferred) + random K,k,+X '
                'families and random placements filtered by Rules.legal_pos; a case is counted as distinct by its placement/side/rights/ep fields')
    # verdict: code vs spec decides whether a failing input exists
    for i in bad_s[:3]:
        chk.violation('legal moves / successors differ from the rules specification on %s: %s' % (pos[i], first_diff(strip_raw(impl[i]), spec[i])),
                      {'kind': 'input', 'fen': pos[i], 'diff': first_diff(strip_raw(impl[i]), spec[i]),
                       'reproduce': "printf '0\\tgen\\t%s\\n' | %s" % (pos[i], binp)}, found_input=True)
    for i in bad_ps[:3]:
        chk.violation('perft(%d) differs from the rules specification on %s: code %s, spec %s' % (sd, spc[i], pimpl2[i], pspec[i]),
                      {'kind': 'input', 'fen': spc[i], 'depth': sd, 'code': pimpl2[i], 'spec': pspec[i]}, found_input=True)
    if not bad_s and not bad_ps:
        for i in bad_m[:3]:
            chk.violation('correspondence broken (model vs code) on %s: %s' % (pos[i], first_diff(impl[i], model[i])),
                          {'kind': 'correspondence', 'stream': 'gen', 'fen': pos[i], 'diff': first_diff(impl[i], model[i])}, found_input=False)
        for i in bad_p[:3]:
            chk.violation('correspondence broken (model vs code) perft on %s: code %s model %s' % (psel[i], pimpl[i], pmodel[i]),
                          {'kind': 'correspondence', 'stream': 'perft', 'fen': psel[i]}, found_input=False)
    return pos, impl

def hist(xs):
    h = {}
    for x in xs:
        h[str(x)] = h.get(str(x), 0) + 1
    return h

def check_C01(chk, binp):
    check_movegen(chk, binp, 'C01')

def check_C02(chk, binp):
    pos, impl = check_movegen(chk, binp, 'C02')
    # counters at the usize limit: saturating, model vs code only
    cc = ['gen\t' + f for f in G.COUNTER_FENS]
    ci = run_cases(binp, cc, 'C02-cnt-impl', shards=1)
    cm = run_cases(MODEL, cc, 'C02-cnt-model', shards=1)
    for i in stream(chk, 'successors with move counters at the usize limit (saturating)', cc, ci, cm, 'extracted implementation model'):
        chk.violation('successor with saturated counters differs on %s: %s' % (G.COUNTER_FENS[i], first_diff(ci[i], cm[i])),
                      {'kind': 'correspondence' if ci[i] != 'panic' else 'input', 'fen': G.COUNTER_FENS[i], 'code': (ci[i] or '')[:300]}, found_input=(ci[i] == 'panic'))
    quick = chk.tier == 'quick'
    rnd = random.Random(chk.seed + 2)
    # coordinate resolution: all 64x64 pairs (+ promotion letters only for pawns reaching the last rank) on a few positions
    roots = G.corpus()[:6] if quick else G.corpus()
    cases = []
    def add(fen, f, t):
        board = fen.split(' ')[0]
        cases.append('%s\t%d\t%d\t0' % (fen, f, t))
        # promotion letters only on pawn moves to the last rank
        rows = board.split('/')
        def at(sq):
            r, fl = sq // 8, sq % 8
            row = rows[7 - r]; i = 0
            for ch in row:
                if ch.isdigit():
                    i += int(ch)
                else:
                    if i == fl: return ch
                    i += 1
                if i > fl: return None
            return None
        p = at(f)
        if (p == 'P' and t // 8 == 7) or (p == 'p' and t // 8 == 0):
            for pr in (2, 3, 4, 5):
                cases.append('%s\t%d\t%d\t%d' % (fen, f, t, pr))
    for fen in roots:
        for f in range(64):
            for t in range(64):
                add(fen, f, t)
    for fen in rnd.sample(pos, min(len(pos), 150 if quick else 3000)):
        for _ in range(40):
            add(fen, rnd.randrange(64), rnd.randrange(64))
        # and every legal move's own coordinates
        o = impl[pos.index(fen)] if fen in pos else None
        if o:
            for it in o.split(';')[:60]:
                a = it.split('=')[0].split('/')
                cases.append('%s\t%s\t%s\t%s' % (fen, a[1], a[2], a[3]))
    rc = ['resolve\t' + c for c in cases]
    rimpl = run_cases(binp, rc, 'C02-res-impl')
    rmodel = run_cases(MODEL, rc, 'C02-res-model')
    rspec = run_cases(MODEL, ['specresolve\t' + c for c in cases], 'C02-res-spec')
    bm = stream(chk, 'coordinate resolution (from,to,promotion) -> successor / rejection', rc, rimpl, rmodel, 'extracted implementation model (resolve)')
    bs = stream(chk, 'coordinate resolution (from,to,promotion) -> successor / rejection', rc, rimpl, rspec, 'extracted rules specification')
    chk.extra['resolution_outcomes'] = hist([(r or 'none').split(' ')[0] for r in rimpl])
    for i in bs[:3]:
        chk.violation('coordinate resolution differs from the rules on %s: code %s, rules %s' % (cases[i], rimpl[i], rspec[i]),
                      {'kind': 'input', 'case': cases[i], 'code': rimpl[i], 'spec': rspec[i]}, found_input=True)
    if not bs:
        for i in bm[:3]:
            chk.violation('correspondence broken (resolve) on %s: code %s model %s' % (cases[i], rimpl[i], rmodel[i]),
                          {'kind': 'correspondence', 'case': cases[i]}, found_input=False)

# ------------------------------------------------------------------ C09
def submasks(mask):
    s = mask
    while True:
        yield s
        if s == 0:
            return
        s = (s - 1) & mask

def py_ray_mask(sq, dirs, edge_trim):
    m = 0
    for df, dr in dirs:
        f, r = sq % 8 + df, sq // 8 + dr
        while 0 <= f < 8 and 0 <= r < 8:
            nf, nr = f + df, r + dr
            last = not (0 <= nf < 8 and 0 <= nr < 8)
            if not (edge_trim and last):
                m |= 1 << (r * 8 + f)
            f, r = nf, nr
    return m

def check_C09(chk, binp):
    quick = chk.tier == 'quick'
    rnd = random.Random(chk.seed)
    rdirs = [(0, 1), (0, -1), (1, 0), (-1, 0)]
    bdirs = [(1, 1), (1, -1), (-1, 1), (-1, -1)]
    cases = []
    for sq in range(64):
        for kind, dirs in (('rook', rdirs), ('bishop', bdirs)):
            full = py_ray_mask(sq, dirs, False)     # all ray squares, edges included (a superset of the relevant mask)
            rel = py_ray_mask(sq, dirs, True)
            subs = list(submasks(rel))
            for s in subs:
                cases.append('%s\t%d\t%d' % (kind, sq, s))
            # occupancy on the edge squares and off the rays must not matter
            for _ in range(8 if quick else 200):
                s = rnd.choice(subs) | (rnd.getrandbits(64) & ~rel)
                cases.append('%s\t%d\t%d' % (kind, sq, s))
        for _ in range(4 if quick else 200):
            cases.append('queen\t%d\t%d' % (sq, rnd.getrandbits(64) & rnd.getrandbits(64)))
    impl = run_cases(binp, cases, 'C09-impl')
    model = run_cases(MODEL, cases, 'C09-model')
    spec_cases = ['spec' + c if not c.startswith('queen') else c for c in cases]
    spec = run_cases(MODEL, [c for c in spec_cases if c.startswith('spec')], 'C09-spec')
    si = iter(spec)
    spec_full = [next(si) if c.startswith('spec') else None for c in spec_cases]
    bm = stream(chk, 'slider lookup for every square x every relevant blocker subset (+ random off-ray noise)', cases, impl, model, 'extracted implementation model (magic lookup)')
    idx = [i for i, c in enumerate(spec_cases) if c.startswith('spec')]
    bs = [i for i in idx if impl[i] != spec_full[i]]
    chk.streams.append({'name': 'slider lookup vs ray walk', 'against': 'extracted walk_dirs (geometric definition)', 'cases': len(idx), 'disagreements': len(bs)})
    lc = ['leapers\t%d' % s for s in range(64)]
    limpl = run_cases(binp, lc, 'C09-leap-impl', shards=1)
    lmodel = run_cases(MODEL, lc, 'C09-leap-model', shards=1)
    # independent python geometry for the leapers
    def pat(sq, offs):
        m = 0
        for df, dr in offs:
            f, r = sq % 8 + df, sq // 8 + dr
            if 0 <= f < 8 and 0 <= r < 8:
                m |= 1 << (r * 8 + f)
        return m
    KN = [(1, 2), (2, 1), (2, -1), (1, -2), (-1, -2), (-2, -1), (-2, 1), (-1, 2)]
    KG = [(1, 1), (1, 0), (1, -1), (0, -1), (-1, -1), (-1, 0), (-1, 1), (0, 1)]
    lgeo = ['%d,%d,%d,%d' % (pat(s, KN), pat(s, KG), pat(s, [(-1, 1), (1, 1)]), pat(s, [(-1, -1), (1, -1)])) for s in range(64)]
    bl = stream(chk, 'knight/king/pawn tables, all 64 squares', lc, limpl, lmodel, 'extracted implementation model')
    bg = stream(chk, 'knight/king/pawn tables, all 64 squares', lc, limpl, lgeo, 'coordinate patterns computed by the checker')
    for c in cases:
        chk.distinct.add(c)
    chk.extra['exhaustive'] = True
    chk.rule = 'exhaustive: every (square, subset of the relevant ray squares) for rook and bishop, plus seeded random occupancies differing only off the relevant squares; all 64 squares for the leaper tables; every case is distinct'
    chk.samples += [{'case': cases[i], 'code': impl[i]} for i in (0, len(cases) // 2, len(cases) - 1)]
    for i in bs[:3]:
        chk.violation('attack lookup differs from the ray walk: %s code=%s walk=%s' % (cases[i], impl[i], spec_full[i]),
                      {'kind': 'input', 'case': cases[i], 'code': impl[i], 'walk': spec_full[i]}, found_input=True)
    for i in bg[:3]:
        chk.violation('leaper table differs from the geometric pattern at square %d: code=%s geometry=%s' % (i, limpl[i], lgeo[i]),
                      {'kind': 'input', 'square': i, 'code': limpl[i], 'geometry': lgeo[i]}, found_input=True)
    if not bs and not bg:
        for i in (bm[:2]):
            chk.violation('correspondence broken (lookup) on %s: code=%s model=%s' % (cases[i], impl[i], model[i]), {'kind': 'correspondence', 'case': cases[i]}, found_input=False)
        for i in (bl[:2]):
            chk.violation('correspondence broken (leapers) on square %d' % i, {'kind': 'correspondence', 'square': i}, found_input=False)

# ------------------------------------------------------------------ C20
def check_C20(chk, binp):
    cases = ['moveblock\t%d\t%d\t%d' % (c, p, o) for c in (0, 1) for p in range(1, 7) for o in range(64)]
    impl = run_cases(binp, cases, 'C20-impl')
    model = run_cases(MODEL, cases, 'C20-model')
    bad = stream(chk, 'all builds per (colour, kind, origin): checksum over (raw, every accessor); ciborium round trip; equality', cases, impl, model, 'extracted implementation model (constructors/accessors)')
    n = 0
    for r in impl:
        if r and r.split(' ')[0].isdigit():
            n += int(r.split(' ')[0])
    chk.evaluations += n
    chk.extra['moves_built'] = n
    chk.extra['exhaustive'] = True
    for c in cases:
        chk.distinct.add(c)
    chk.rule = 'exhaustive: 2 colours x 6 kinds x 64 origins x 64 destinations x {none,5 captures} x {none,4 promotions} + en-passant per (origin,destination) + 4 castling moves; blocks of 1986 moves compared by an order-dependent checksum of (raw value, all accessors); each move serialised with ciborium and compared after deserialisation'
    chk.samples += [{'case': cases[0], 'code': impl[0], 'model': model[0]}]
    serde_bad = [i for i, r in enumerate(impl) if r is None or not r.endswith(' 0')]
    for i in serde_bad[:2]:
        chk.violation('serialisation round trip or equality failed in block %s: %s' % (cases[i], impl[i]), {'kind': 'input', 'case': cases[i], 'code': impl[i]}, found_input=True)
    for i in bad[:2]:
        # locate the first differing single move inside the block
        c, p, o = cases[i].split('\t')[1:]
        singles = ['moveone\t%s\t%s\t%s\t%d\t%d\t%d' % (c, p, o, d, cap, pro) for d in range(64) for cap in (0, 1, 2, 3, 4, 5) for pro in (0, 2, 3, 4, 5)]
        a = run_cases(binp, singles, 'C20-one-impl')
        b = run_cases(MODEL, singles, 'C20-one-model')
        diff = [(s, x, y) for s, x, y in zip(singles, a, b) if x != y]
        if diff:
            s, x, y = diff[0]
            # the model's accessors are proved to return the constructor arguments (C20_roundtrip), so a difference is a wrong attribute
            chk.violation('move built by %s reports %s, the proved-correct model reports %s' % (s, x, y), {'kind': 'input', 'case': s, 'code': x, 'model': y}, found_input=True)
        else:
            chk.violation('block checksum differs but no single ordinary move does (en-passant/castling constructor?): %s code=%s model=%s' % (cases[i], impl[i], model[i]),
                          {'kind': 'correspondence', 'case': cases[i]}, found_input=False)

# ------------------------------------------------------------------ C15
def table_ops(rnd, nt, nb, n):
    """seeded op sequence: keys from a tiny pool, from a bucket-aligned family, and uniform"""
    mode = rnd.randrange(4)
    stride = nt * nb
    base = rnd.randrange(1 << 40)
    if mode == 0:
        pool = [rnd.getrandbits(64) for _ in range(rnd.randrange(2, 12))]
    elif mode == 1:   # adversarially bucket-aligned: same sub-table and same bucket
        pool = [base + i * stride * rnd.choice([1, nt, nb, stride]) for i in range(rnd.randrange(9, 30))]
    elif mode == 2:
        pool = [rnd.getrandbits(64) for _ in range(200)]
    else:
        pool = [base + i for i in range(40)] + [(1 << 64) - 1 - i for i in range(5)]
    ops = []
    for i in range(n):
        k = rnd.choice(pool)
        if rnd.random() < 0.55:
            ops.append('i:%d:%d:%d:%d:%d:%d' % (k, rnd.randrange(3), rnd.getrandbits(29), rnd.randrange(40), rnd.randrange(40), rnd.randrange(-12000, 12000)))
        else:
            ops.append('f:%d' % k)
    return ops

def lww_check(ops, outs):
    """the abstract map read directly by the checker: a find returns nothing or the latest value stored under that key"""
    last = {}
    for op, out in zip(ops, outs):
        a = op.split(':')
        if a[0] == 'i':
            last[a[1]] = ':'.join(a[2:])
        else:
            if out != '-' and last.get(a[1]) != out:
                return 'find(%s) returned %s, last write %s' % (a[1], out, last.get(a[1]))
    return None

def check_C15(chk, binp):
    quick = chk.tier == 'quick'
    rnd = random.Random(chk.seed)
    cfgs = [(1, 1), (1, 2), (2, 1), (3, 5), (8, 1024), (2, 2), (1, 8), (5, 3)]
    cases = []; meta = []
    for i in range(400 if quick else 6000):
        nt, nb = cfgs[i % len(cfgs)]
        ops = table_ops(rnd, nt, nb, rnd.randrange(5, 400 if quick else 3000))
        cases.append('tableops\t%d\t%d\t%s' % (nt, nb, ','.join(ops))); meta.append(ops)
    impl = run_cases(binp, cases, 'C15-impl')
    model = run_cases(MODEL, cases, 'C15-model')
    bad = stream(chk, 'sequential insert/find histories: every find answer, the running entry count, capacity', cases, impl, model, 'extracted implementation model (Table.v)')
    nops = sum(len(m) for m in meta)
    chk.evaluations += nops
    chk.extra['operations'] = nops
    chk.extra['configs'] = ['%dx%d' % c for c in cfgs]
    replaced = 0
    spec_bad = []
    for i, (ops, out) in enumerate(zip(meta, impl)):
        if out is None or out == 'panic':
            spec_bad.append((i, 'panic / no answer')); continue
        outs = out.split(' max=')[0].split(',')
        msg = lww_check(ops, outs)
        if msg:
            spec_bad.append((i, msg))
        cnts = [int(o[1:]) for o in outs if o.startswith('n')]
        mx = int(out.split('max=')[1])
        nt, nb = cfgs[i % len(cfgs)]
        if cnts and (max(cnts) > mx or mx != nt * nb * 8):
            spec_bad.append((i, 'entry count %d above capacity %d (or capacity not tables*buckets*8)' % (max(cnts), mx)))
        chk.distinct.add(hash(cases[i]))
    chk.streams.append({'name': 'find answers vs last-writer-wins map; count <= capacity', 'against': 'abstract map evaluated by the checker', 'cases': len(cases), 'disagreements': len(spec_bad)})
    # concurrent
    cc = []
    for i in range(24 if quick else 400):
        nt, nb = cfgs[i % len(cfgs)]
        cc.append('tableconc\t%d\t%d\t%d\t%d\t%d\t%d' % (nt, nb, rnd.choice([2, 4, 8, 16, 32]), rnd.randrange(1 << 30), 300 if quick else 3000, rnd.choice([3, 9, 40])))
    conc = run_cases(binp, cc, 'C15-conc', shards=4)
    cbad = [i for i, r in enumerate(conc) if r is None or not r.startswith('ok')]
    chk.streams.append({'name': 'concurrent threads (2..32) on one real table: attributed answers, final values, count', 'against': 'per-key attribution check in the harness', 'cases': len(cc), 'disagreements': len(cbad)})
    chk.evaluations += len(cc)
    chk.rule = 'seeded op sequences over 8 table geometries (1x1 .. 8x1024), keys from tiny pools / bucket-aligned families / uniform; distinct = distinct sequences'
    chk.samples += [{'case': cases[0][:200], 'code': (impl[0] or '')[:120]}, {'case': cc[0], 'code': conc[0]}]
    for i, msg in spec_bad[:3]:
        chk.violation('table is not a faithful bounded map: %s (config %s)' % (msg, cases[i].split('\t')[1:3]), {'kind': 'history', 'case': cases[i][:4000], 'what': msg}, found_input=True)
    for i in cbad[:3]:
        chk.violation('concurrent table run: %s (%s)' % (conc[i], cc[i]), {'kind': 'schedule', 'case': cc[i], 'code': conc[i]}, found_input=True)
    if not spec_bad and not cbad:
        for i in bad[:3]:
            chk.violation('correspondence broken (table ops): %s' % cases[i][:200], {'kind': 'correspondence', 'case': cases[i][:4000], 'code': (impl[i] or '')[:500], 'model': (model[i] or '')[:500]}, found_input=False)
