"""Per-property correspondence streams and violation searches (DESIGN.md sections 4-6)."""
import os, random, json, time, re
import wvlib
from wvlib import run_cases, VERIF, COQ, sh
import gen_cases as G

MODEL = f'{VERIF}/ocaml/model_run'
PROFILE = {}     # property -> cargo profile of the harness ('chk' by default)

def stream(chk, name, cases, impl, other, label, norm_impl=None, norm_other=None, classify=None, max_report=3):
    """compare impl[i] with other[i]; record stats; return list of mismatching indices"""
    bad = []
    for i, (a, b) in enumerate(zip(impl, other)):
        a2 = norm_impl(a) if (norm_impl and a is not None) else a
        b2 = norm_other(b) if (norm_other and b is not None) else b
        if a2 is None or b2 is None or a2 != b2:
            bad.append(i)
    chk.streams.append({'name': name, 'against': label, 'cases': len(cases), 'disagreements': len(bad)})
    chk.evaluations += len(cases)
    return bad

def first_diff(a, b, sep=';'):
    sa, sb = set((a or '').split(sep)), set((b or '').split(sep))
    return {'only_in_code': sorted(sa - sb)[:4], 'only_in_reference': sorted(sb - sa)[:4]}

def coqchk_step(chk, prop):
    rc, out, dt = sh(['coqchk', '-silent', '-o', '-Q', 'gen', 'WV', '-Q', 'model', 'WV', '-Q', 'spec', 'WV', '-Q', 'proofs', 'WV',
                      '-Q', 'props', 'WV'] + ['WV.' + os.path.basename(x)[:-2] for x in wvlib.prop_files(prop)], cwd=COQ, timeout=1500)
    if rc == 124:
        # coqchk re-checks vm_compute steps with its own reduction machinery; on the big finite sweeps this can exceed the budget.
        # A timeout is not a rejection: recorded as a note, the kernel check (coqc) stands.
        chk.notes.append('coqchk did not finish within %d s for %s (not a rejection; coqc kernel check and Print Assumptions stand)' % (int(dt), prop))
        chk.extra['coqchk'] = 'timeout'
        return
    ax = re.findall(r'^\s+([\w.]+)\s*$', out.split('Axioms:')[-1], re.M) if 'Axioms:' in out else []
    # axioms allow-listed by name for theorems of this property (props/C13_f32.v: the standard library's real-number axioms)
    allowed = set(a for n in wvlib.theorem_names(prop) for a in wvlib.ALLOWED_AXIOMS.get(n, []))
    ax = [a for a in ax if a not in allowed and a.split('.')[-1] not in set(x.split('.')[-1] for x in allowed)]
    ok = rc == 0 and ('Axioms: <none>' in out.replace('\n', ' ') or not ax)
    chk.oblig('coqchk -o re-check of props/%s.vo and its closure' % prop, ok, out[-600:])
    if not ok:
        chk.violation('coqchk rejects or reports axioms for %s: %s' % (prop, out[-400:]), {'coqchk': out[-1500:]}, found_input=False)

# ------------------------------------------------------------------ move-generation observables
def strip_raw(out):
    """'raw/from/to/...=fen;...' -> sorted 'from/to/...=fen' (the spec has no raw encoding)"""
    if out in (None, '', 'badfen'):
        return out
    items = [x.split('/', 1)[1] for x in out.split(';')]
    return ';'.join(sorted(items))

def movegen_features(fen, out):
    """which rule features a position exercised (for the evidence distribution)"""
    f = set()
    if out in (None, ''):
        f.add('terminal'); return f
    for it in out.split(';'):
        a = it.split('=')[0].split('/')
        if len(a) < 10:
            continue
        if a[3] != '0': f.add('promotion')
        if a[3] != '0' and a[6] != '0': f.add('promotion-capture')
        if a[7] == '1': f.add('en-passant')
        if a[8] == '1': f.add('castle-king-side')
        if a[8] == '2': f.add('castle-queen-side')
        if a[9] == '1': f.add('double-step')
        if a[6] != '0': f.add('capture')
    parts = fen.split(' ')
    if parts[3] != '-': f.add('ep-target-set')
    if parts[2] != '-': f.add('castling-rights')
    return f

def check_movegen(chk, binp, prop):
    quick = chk.tier == 'quick'
    pos = G.positions(chk.seed, chk.tier, prop)
    rnd = random.Random(chk.seed + 1)
    gen_cases = ['gen\t' + f for f in pos]
    impl = run_cases(binp, gen_cases, prop + '-gen-impl')
    model = run_cases(MODEL, gen_cases, prop + '-gen-model')
    spec = run_cases(MODEL, ['specgen\t' + f for f in pos], prop + '-gen-spec')
    bad_m = stream(chk, 'legal move set with attributes and successor FEN', gen_cases, impl, model, 'extracted implementation model (gen_legal)')
    bad_s = stream(chk, 'legal move set with attributes and successor FEN', gen_cases, impl, spec, 'extracted rules specification (Rules.legal_moves/apply)', norm_impl=strip_raw)
    feats = {}
    for f, o in zip(pos, impl):
        for x in movegen_features(f, o):
            feats[x] = feats.get(x, 0) + 1
        chk.distinct.add(f.rsplit(' ', 2)[0])
    chk.extra['feature_counts'] = feats
    chk.extra['piece_count_histogram'] = hist([sum(c.isalpha() for c in f.split(' ')[0]) for f in pos])
    # perft
    d = 2 if quick else 3
    psel = pos if quick else pos
    psel = psel[:400] if quick else psel[:3000]
    pc = ['perft\t%d\t%s' % (d, f) for f in psel]
    pimpl = run_cases(binp, pc, prop + '-perft-impl')
    pmodel = run_cases(MODEL, pc, prop + '-perft-model')
    bad_p = stream(chk, 'perft node counts depth %d' % d, pc, pimpl, pmodel, 'extracted implementation model (perft)')
    sd = 2
    spc = psel[:150] if quick else psel[:1000]
    pspec = run_cases(MODEL, ['specperft\t%d\t%s' % (sd, f) for f in spc], prop + '-perft-spec')
    pimpl2 = run_cases(binp, ['perft\t%d\t%s' % (sd, f) for f in spc], prop + '-perft-impl2')
    bad_ps = stream(chk, 'perft node counts depth %d' % sd, spc, pimpl2, pspec, 'extracted rules specification (Rules.perft)')
    chk.samples += [{'fen': pos[i], 'code': (impl[i] or '')[:160]} for i in range(0, min(len(pos), 3))]
    chk.rule = ('positions = adversarial corpus + seeded playouts through the extracted SPEC (special moves preferred) + random K,k,+X '
                'families and random placements filtered by Rules.legal_pos; a case is counted as distinct by its placement/side/rights/ep fields')
    # verdict: code vs spec decides whether a failing input exists
    for i in bad_s[:3]:
        chk.violation('legal moves / successors differ from the rules specification on %s: %s' % (pos[i], first_diff(strip_raw(impl[i]), spec[i])),
                      {'kind': 'input', 'fen': pos[i], 'diff': first_diff(strip_raw(impl[i]), spec[i]),
                       'reproduce': "printf '0\\tgen\\t%s\\n' | %s" % (pos[i], binp)}, found_input=True)
    for i in bad_ps[:3]:
        chk.violation('perft(%d) differs from the rules specification on %s: code %s, spec %s' % (sd, spc[i], pimpl2[i], pspec[i]),
                      {'kind': 'input', 'fen': spc[i], 'depth': sd, 'code': pimpl2[i], 'spec': pspec[i]}, found_input=True)
    if not bad_s and not bad_ps:
        for i in bad_m[:3]:
            chk.violation('correspondence broken (model vs code) on %s: %s' % (pos[i], first_diff(impl[i], model[i])),
                          {'kind': 'correspondence', 'stream': 'gen', 'fen': pos[i], 'diff': first_diff(impl[i], model[i])}, found_input=False)
        for i in bad_p[:3]:
            chk.violation('correspondence broken (model vs code) perft on %s: code %s model %s' % (psel[i], pimpl[i], pmodel[i]),
                          {'kind': 'correspondence', 'stream': 'perft', 'fen': psel[i]}, found_input=False)
    return pos, impl

def hist(xs):
    h = {}
    for x in xs:
        h[str(x)] = h.get(str(x), 0) + 1
    return h

def build_cli():
    env = dict(wvlib.ENV, CARGO_TARGET_DIR=f'{VERIF}/harness/target-cli')
    rc, out, dt = sh(['cargo', 'build', '--offline', '--release', '-p', 'weechess_cli'], cwd='/repo', env=env, timeout=2400)
    b = f'{VERIF}/harness/target-cli/release/weechess'
    return rc == 0 and os.path.exists(b), out[-2000:], b

def check_C01(chk, binp):
    pos, impl = check_movegen(chk, binp, 'C01')
    # the CLI observation point: `weechess perft --fen F --depth d` (release binary built from /repo) against Rules.perft
    ok, msg, cli = build_cli()
    chk.oblig('build of the weechess CLI (release) from /repo', ok, '' if ok else msg)
    if not ok:
        chk.violation('weechess_cli does not build: ' + msg[-600:], {'kind': 'build', 'log': msg}, found_input=False)
        return
    sel = G.corpus()[:12] if chk.tier == 'quick' else G.corpus()
    sel = G.filter_legal(sel, 'C01-cli-lp')
    d = 2
    spec = run_cases(MODEL, ['specperft\t%d\t%s' % (d, f) for f in sel], 'C01-cli-spec')
    bad = []
    for f, sp in zip(sel, spec):
        rc, out, _ = sh([cli, 'perft', '--fen', f, '--depth', str(d)], timeout=120)
        m = re.search(r'Total nodes:\s*(\d+)', out)
        got = m.group(1) if m else 'no-output(rc=%s)' % rc
        if got != sp:
            bad.append((f, got, sp))
    chk.streams.append({'name': 'CLI `weechess perft --depth 2` totals', 'against': 'extracted Rules.perft', 'cases': len(sel), 'disagreements': len(bad)})
    chk.evaluations += len(sel)
    for f, got, sp in bad[:3]:
        chk.violation('weechess perft --fen %r --depth %d prints %s, the rules give %s' % (f, d, got, sp), {'kind': 'input', 'fen': f, 'cli': got, 'spec': sp}, found_input=True)

def check_C02(chk, binp):
    pos, impl = check_movegen(chk, binp, 'C02')
    # counters at the usize limit: saturating, model vs code only
    cc = ['gen\t' + f for f in G.COUNTER_FENS]
    ci = run_cases(binp, cc, 'C02-cnt-impl', shards=1)
    cm = run_cases(MODEL, cc, 'C02-cnt-model', shards=1)
    for i in stream(chk, 'successors with move counters at the usize limit (saturating)', cc, ci, cm, 'extracted implementation model'):
        chk.violation('successor with saturated counters differs on %s: %s' % (G.COUNTER_FENS[i], first_diff(ci[i], cm[i])),
                      {'kind': 'correspondence' if ci[i] != 'panic' else 'input', 'fen': G.COUNTER_FENS[i], 'code': (ci[i] or '')[:300]}, found_input=(ci[i] == 'panic'))
    quick = chk.tier == 'quick'
    rnd = random.Random(chk.seed + 2)
    # coordinate resolution: all 64x64 pairs (+ promotion letters only for pawns reaching the last rank) on a few positions
    roots = G.corpus()[:6] if quick else G.corpus()
    cases = []
    def add(fen, f, t):
        board = fen.split(' ')[0]
        cases.append('%s\t%d\t%d\t0' % (fen, f, t))
        # promotion letters only on pawn moves to the last rank
        rows = board.split('/')
        def at(sq):
            r, fl = sq // 8, sq % 8
            row = rows[7 - r]; i = 0
            for ch in row:
                if ch.isdigit():
                    i += int(ch)
                else:
                    if i == fl: return ch
                    i += 1
                if i > fl: return None
            return None
        p = at(f)
        if (p == 'P' and t // 8 == 7) or (p == 'p' and t // 8 == 0):
            for pr in (2, 3, 4, 5):
                cases.append('%s\t%d\t%d\t%d' % (fen, f, t, pr))
    for fen in roots:
        for f in range(64):
            for t in range(64):
                add(fen, f, t)
    for fen in rnd.sample(pos, min(len(pos), 150 if quick else 3000)):
        for _ in range(40):
            add(fen, rnd.randrange(64), rnd.randrange(64))
        # and every legal move's own coordinates
        o = impl[pos.index(fen)] if fen in pos else None
        if o:
            for it in o.split(';')[:60]:
                a = it.split('=')[0].split('/')
                cases.append('%s\t%s\t%s\t%s' % (fen, a[1], a[2], a[3]))
    rc = ['resolve\t' + c for c in cases]
    rimpl = run_cases(binp, rc, 'C02-res-impl')
    rmodel = run_cases(MODEL, rc, 'C02-res-model')
    rspec = run_cases(MODEL, ['specresolve\t' + c for c in cases], 'C02-res-spec')
    bm = stream(chk, 'coordinate resolution (from,to,promotion) -> successor / rejection', rc, rimpl, rmodel, 'extracted implementation model (resolve)')
    bs = stream(chk, 'coordinate resolution (from,to,promotion) -> successor / rejection', rc, rimpl, rspec, 'extracted rules specification')
    chk.extra['resolution_outcomes'] = hist([(r or 'none').split(' ')[0] for r in rimpl])
    for i in bs[:3]:
        chk.violation('coordinate resolution differs from the rules on %s: code %s, rules %s' % (cases[i], rimpl[i], rspec[i]),
                      {'kind': 'input', 'case': cases[i], 'code': rimpl[i], 'spec': rspec[i]}, found_input=True)
    if not bs:
        for i in bm[:3]:
            chk.violation('correspondence broken (resolve) on %s: code %s model %s' % (cases[i], rimpl[i], rmodel[i]),
                          {'kind': 'correspondence', 'case': cases[i]}, found_input=False)

# ------------------------------------------------------------------ C09
def submasks(mask):
    s = mask
    while True:
        yield s
        if s == 0:
            return
        s = (s - 1) & mask

def py_ray_mask(sq, dirs, edge_trim):
    m = 0
    for df, dr in dirs:
        f, r = sq % 8 + df, sq // 8 + dr
        while 0 <= f < 8 and 0 <= r < 8:
            nf, nr = f + df, r + dr
            last = not (0 <= nf < 8 and 0 <= nr < 8)
            if not (edge_trim and last):
                m |= 1 << (r * 8 + f)
            f, r = nf, nr
    return m

def check_C09(chk, binp):
    quick = chk.tier == 'quick'
    rnd = random.Random(chk.seed)
    rdirs = [(0, 1), (0, -1), (1, 0), (-1, 0)]
    bdirs = [(1, 1), (1, -1), (-1, 1), (-1, -1)]
    cases = []
    for sq in range(64):
        for kind, dirs in (('rook', rdirs), ('bishop', bdirs)):
            full = py_ray_mask(sq, dirs, False)     # all ray squares, edges included (a superset of the relevant mask)
            rel = py_ray_mask(sq, dirs, True)
            subs = list(submasks(rel))
            for s in subs:
                cases.append('%s\t%d\t%d' % (kind, sq, s))
            # occupancy on the edge squares and off the rays must not matter
            for _ in range(8 if quick else 200):
                s = rnd.choice(subs) | (rnd.getrandbits(64) & ~rel)
                cases.append('%s\t%d\t%d' % (kind, sq, s))
        for _ in range(4 if quick else 200):
            cases.append('queen\t%d\t%d' % (sq, rnd.getrandbits(64) & rnd.getrandbits(64)))
    impl = run_cases(binp, cases, 'C09-impl')
    model = run_cases(MODEL, cases, 'C09-model')
    spec_cases = ['spec' + c if not c.startswith('queen') else c for c in cases]
    spec = run_cases(MODEL, [c for c in spec_cases if c.startswith('spec')], 'C09-spec')
    si = iter(spec)
    spec_full = [next(si) if c.startswith('spec') else None for c in spec_cases]
    bm = stream(chk, 'slider lookup for every square x every relevant blocker subset (+ random off-ray noise)', cases, impl, model, 'extracted implementation model (magic lookup)')
    idx = [i for i, c in enumerate(spec_cases) if c.startswith('spec')]
    bs = [i for i in idx if impl[i] != spec_full[i]]
    chk.streams.append({'name': 'slider lookup vs ray walk', 'against': 'extracted walk_dirs (geometric definition)', 'cases': len(idx), 'disagreements': len(bs)})
    lc = ['leapers\t%d' % s for s in range(64)]
    limpl = run_cases(binp, lc, 'C09-leap-impl', shards=1)
    lmodel = run_cases(MODEL, lc, 'C09-leap-model', shards=1)
    # independent python geometry for the leapers
    def pat(sq, offs):
        m = 0
        for df, dr in offs:
            f, r = sq % 8 + df, sq // 8 + dr
            if 0 <= f < 8 and 0 <= r < 8:
                m |= 1 << (r * 8 + f)
        return m
    KN = [(1, 2), (2, 1), (2, -1), (1, -2), (-1, -2), (-2, -1), (-2, 1), (-1, 2)]
    KG = [(1, 1), (1, 0), (1, -1), (0, -1), (-1, -1), (-1, 0), (-1, 1), (0, 1)]
    lgeo = ['%d,%d,%d,%d' % (pat(s, KN), pat(s, KG), pat(s, [(-1, 1), (1, 1)]), pat(s, [(-1, -1), (1, -1)])) for s in range(64)]
    bl = stream(chk, 'knight/king/pawn tables, all 64 squares', lc, limpl, lmodel, 'extracted implementation model')
    bg = stream(chk, 'knight/king/pawn tables, all 64 squares', lc, limpl, lgeo, 'coordinate patterns computed by the checker')
    for c in cases:
        chk.distinct.add(c)
    chk.extra['exhaustive'] = True
    chk.rule = 'exhaustive: every (square, subset of the relevant ray squares) for rook and bishop, plus seeded random occupancies differing only off the relevant squares; all 64 squares for the leaper tables; every case is distinct'
    chk.samples += [{'case': cases[i], 'code': impl[i]} for i in (0, len(cases) // 2, len(cases) - 1)]
    for i in bs[:3]:
        chk.violation('attack lookup differs from the ray walk: %s code=%s walk=%s' % (cases[i], impl[i], spec_full[i]),
                      {'kind': 'input', 'case': cases[i], 'code': impl[i], 'walk': spec_full[i]}, found_input=True)
    for i in bg[:3]:
        chk.violation('leaper table differs from the geometric pattern at square %d: code=%s geometry=%s' % (i, limpl[i], lgeo[i]),
                      {'kind': 'input', 'square': i, 'code': limpl[i], 'geometry': lgeo[i]}, found_input=True)
    if not bs and not bg:
        for i in (bm[:2]):
            chk.violation('correspondence broken (lookup) on %s: code=%s model=%s' % (cases[i], impl[i], model[i]), {'kind': 'correspondence', 'case': cases[i]}, found_input=False)
        for i in (bl[:2]):
            chk.violation('correspondence broken (leapers) on square %d' % i, {'kind': 'correspondence', 'square': i}, found_input=False)

# ------------------------------------------------------------------ C20
def check_C20(chk, binp):
    cases = ['moveblock\t%d\t%d\t%d' % (c, p, o) for c in (0, 1) for p in range(1, 7) for o in range(64)]
    impl = run_cases(binp, cases, 'C20-impl')
    model = run_cases(MODEL, cases, 'C20-model')
    bad = stream(chk, 'all builds per (colour, kind, origin): checksum over (raw, every accessor); ciborium round trip; equality', cases, impl, model, 'extracted implementation model (constructors/accessors)')
    n = 0
    for r in impl:
        if r and r.split(' ')[0].isdigit():
            n += int(r.split(' ')[0])
    chk.evaluations += n
    chk.extra['moves_built'] = n
    chk.extra['exhaustive'] = True
    for c in cases:
        chk.distinct.add(c)
    chk.rule = 'exhaustive: 2 colours x 6 kinds x 64 origins x 64 destinations x {none,5 captures} x {none,4 promotions} + en-passant per (origin,destination) + 4 castling moves; blocks of 1986 moves compared by an order-dependent checksum of (raw value, all accessors); each move serialised with ciborium and compared after deserialisation'
    chk.samples += [{'case': cases[0], 'code': impl[0], 'model': model[0]}]
    serde_bad = [i for i, r in enumerate(impl) if r is None or not r.endswith(' 0')]
    for i in serde_bad[:2]:
        chk.violation('serialisation round trip or equality failed in block %s: %s' % (cases[i], impl[i]), {'kind': 'input', 'case': cases[i], 'code': impl[i]}, found_input=True)
    for i in bad[:2]:
        # locate the first differing single move inside the block
        c, p, o = cases[i].split('\t')[1:]
        singles = ['moveone\t%s\t%s\t%s\t%d\t%d\t%d' % (c, p, o, d, cap, pro) for d in range(64) for cap in (0, 1, 2, 3, 4, 5) for pro in (0, 2, 3, 4, 5)]
        a = run_cases(binp, singles, 'C20-one-impl')
        b = run_cases(MODEL, singles, 'C20-one-model')
        diff = [(s, x, y) for s, x, y in zip(singles, a, b) if x != y]
        if diff:
            s, x, y = diff[0]
            # the model's accessors are proved to return the constructor arguments (C20_roundtrip), so a difference is a wrong attribute
            chk.violation('move built by %s reports %s, the proved-correct model reports %s' % (s, x, y), {'kind': 'input', 'case': s, 'code': x, 'model': y}, found_input=True)
        else:
            chk.violation('block checksum differs but no single ordinary move does (en-passant/castling constructor?): %s code=%s model=%s' % (cases[i], impl[i], model[i]),
                          {'kind': 'correspondence', 'case': cases[i]}, found_input=False)

# ------------------------------------------------------------------ C15
def table_ops(rnd, nt, nb, n):
    """seeded op sequence: keys from a tiny pool, from a bucket-aligned family, and uniform"""
    mode = rnd.randrange(4)
    stride = nt * nb
    base = rnd.randrange(1 << 40)
    if mode == 0:
        pool = [rnd.getrandbits(64) for _ in range(rnd.randrange(2, 12))]
    elif mode == 1:   # adversarially bucket-aligned: same sub-table and same bucket
        pool = [base + i * stride * rnd.choice([1, nt, nb, stride]) for i in range(rnd.randrange(9, 30))]
    elif mode == 2:
        pool = [rnd.getrandbits(64) for _ in range(200)]
    else:
        pool = [base + i for i in range(40)] + [(1 << 64) - 1 - i for i in range(5)]
    ops = []
    # half of the sequences re-store keys with the SAME move and depths but another score/kind (as a re-search does)
    same = rnd.random() < 0.5
    mvpool = [rnd.getrandbits(29) for _ in range(2)]
    for i in range(n):
        k = rnd.choice(pool)
        if rnd.random() < 0.55:
            if same:
                ops.append('i:%d:%d:%d:%d:%d:%d' % (k, rnd.randrange(3), rnd.choice(mvpool), 3, 7, rnd.randrange(-12000, 12000)))
            else:
                ops.append('i:%d:%d:%d:%d:%d:%d' % (k, rnd.randrange(3), rnd.getrandbits(29), rnd.randrange(40), rnd.randrange(40), rnd.randrange(-12000, 12000)))
        else:
            ops.append('f:%d' % k)
    return ops

def lww_check(ops, outs):
    """the abstract map read directly by the checker: a find returns nothing or the latest value stored under that key"""
    last = {}
    for op, out in zip(ops, outs):
        a = op.split(':')
        if a[0] == 'i':
            last[a[1]] = ':'.join(a[2:])
        else:
            if out != '-' and last.get(a[1]) != out:
                return 'find(%s) returned %s, last write %s' % (a[1], out, last.get(a[1]))
    return None

def check_C15(chk, binp):
    quick = chk.tier == 'quick'
    rnd = random.Random(chk.seed)
    cfgs = [(1, 1), (1, 2), (2, 1), (3, 5), (8, 1024), (2, 2), (1, 8), (5, 3)]
    cases = []; meta = []
    for i in range(400 if quick else 6000):
        nt, nb = cfgs[i % len(cfgs)]
        ops = table_ops(rnd, nt, nb, rnd.randrange(5, 400 if quick else 3000))
        cases.append('tableops\t%d\t%d\t%s' % (nt, nb, ','.join(ops))); meta.append(ops)
    impl = run_cases(binp, cases, 'C15-impl')
    model = run_cases(MODEL, cases, 'C15-model')
    bad = stream(chk, 'sequential insert/find histories: every find answer, the running entry count, capacity', cases, impl, model, 'extracted implementation model (Table.v)')
    nops = sum(len(m) for m in meta)
    chk.evaluations += nops
    chk.extra['operations'] = nops
    chk.extra['configs'] = ['%dx%d' % c for c in cfgs]
    replaced = 0
    spec_bad = []
    for i, (ops, out) in enumerate(zip(meta, impl)):
        if out is None or out == 'panic':
            spec_bad.append((i, 'panic / no answer')); continue
        outs = out.split(' max=')[0].split(',')
        msg = lww_check(ops, outs)
        if msg:
            spec_bad.append((i, msg))
        cnts = [int(o[1:]) for o in outs if o.startswith('n')]
        mx = int(out.split('max=')[1])
        nt, nb = cfgs[i % len(cfgs)]
        if cnts and (max(cnts) > mx or mx != nt * nb * 8):
            spec_bad.append((i, 'entry count %d above capacity %d (or capacity not tables*buckets*8)' % (max(cnts), mx)))
        chk.distinct.add(hash(cases[i]))
    chk.streams.append({'name': 'find answers vs last-writer-wins map; count <= capacity', 'against': 'abstract map evaluated by the checker', 'cases': len(cases), 'disagreements': len(spec_bad)})
    # concurrent
    cc = []
    for i in range(24 if quick else 400):
        nt, nb = cfgs[i % len(cfgs)]
        cc.append('tableconc\t%d\t%d\t%d\t%d\t%d\t%d' % (nt, nb, rnd.choice([2, 4, 8, 16, 32]), rnd.randrange(1 << 30), 300 if quick else 3000, rnd.choice([3, 9, 40])))
    conc = run_cases(binp, cc, 'C15-conc', shards=4)
    cbad = [i for i, r in enumerate(conc) if r is None or not r.startswith('ok')]
    chk.streams.append({'name': 'concurrent threads (2..32) on one real table: attributed answers, final values, count', 'against': 'per-key attribution check in the harness', 'cases': len(cc), 'disagreements': len(cbad)})
    chk.evaluations += len(cc)
    # no-displacement regime with barrier-synchronised threads inserting different keys of the same bucket at the same moment:
    # every key must stay retrievable and the count must equal the number of keys (rounds <= buckets: one key per thread and bucket)
    rc = ['tablerace\t%d\t%d\t%d\t%d' % (nb, th, min(nb, 1500 if quick else 20000), rnd.randrange(1 << 30)) for nb, th in ([(64, 8), (500, 8), (2000, 8), (2000, 4), (997, 2), (4096, 6)] * (1 if quick else 8))]
    race = run_cases(binp, rc, 'C15-race', shards=3)
    rbad = [i for i, r in enumerate(race) if r is None or not r.startswith('ok')]
    chk.streams.append({'name': 'barrier-synchronised threads insert different keys of one bucket simultaneously (no displacement possible): all keys retrievable, count exact', 'against': 'the property (retained until displaced from a FULL bucket; count = occupied slots)', 'cases': len(rc), 'disagreements': len(rbad)})
    chk.evaluations += len(rc)
    # displacement regime: more keys than slots, constant full-bucket replacement under contention; no lookup may ever return a
    # value stored under another key
    hc = ['tablehammer\t%d\t%d\t%d\t%d\t%d' % (nb, th, nk, 150000 if quick else 1500000, rnd.randrange(1 << 30)) for nb, th, nk in ([(1, 16, 12), (1, 8, 20), (2, 16, 30), (1, 4, 10)] * (1 if quick else 4))]
    ham = run_cases(binp, hc, 'C15-hammer', shards=2)
    hbad = [i for i, r in enumerate(ham) if r is None or not r.startswith('ok')]
    chk.streams.append({'name': 'threads hammer a tiny table with more keys than slots (constant displacement): no lookup returns a value stored under another key; count <= capacity', 'against': 'the property (never an entry stored under another key)', 'cases': len(hc), 'disagreements': len(hbad)})
    chk.evaluations += len(hc)
    for i in hbad[:3]:
        chk.violation('concurrent stores under displacement: %s (%s)' % (ham[i], hc[i]), {'kind': 'schedule', 'case': hc[i], 'code': ham[i]}, found_input=True)
    for i in rbad[:3]:
        chk.violation('concurrent inserts into one bucket: %s (%s)' % (race[i], rc[i]), {'kind': 'schedule', 'case': rc[i], 'code': race[i]}, found_input=True)
    chk.rule = 'seeded op sequences over 8 table geometries (1x1 .. 8x1024), keys from tiny pools / bucket-aligned families / uniform; distinct = distinct sequences'
    chk.samples += [{'case': cases[0][:200], 'code': (impl[0] or '')[:120]}, {'case': cc[0], 'code': conc[0]}]
    for i, msg in spec_bad[:3]:
        chk.violation('table is not a faithful bounded map: %s (config %s)' % (msg, cases[i].split('\t')[1:3]), {'kind': 'history', 'case': cases[i][:4000], 'what': msg}, found_input=True)
    for i in cbad[:3]:
        chk.violation('concurrent table run: %s (%s)' % (conc[i], cc[i]), {'kind': 'schedule', 'case': cc[i], 'code': conc[i]}, found_input=True)
    if not spec_bad and not cbad:
        for i in bad[:3]:
            chk.violation('correspondence broken (table ops): %s' % cases[i][:200], {'kind': 'correspondence', 'case': cases[i][:4000], 'code': (impl[i] or '')[:500], 'model': (model[i] or '')[:500]}, found_input=False)

# ------------------------------------------------------------------ C08
def fen_variants(rnd, fen):
    """(class, variant fen, must_equal) pairs differing from fen in exactly one component"""
    p = fen.split(' ')
    out = []
    out.append(('counters-only', ' '.join(p[:4] + [str(rnd.randrange(0, 90)), str(rnd.randrange(1, 400))]), True))
    if p[2] != '-':
        r = rnd.choice(p[2])
        out.append(('one-castling-right-removed', ' '.join([p[0], p[1], p[2].replace(r, '') or '-'] + p[3:]), False))
    if p[2] != '-':
        # colour-symmetric changes of the rights (a hasher that does not tell whose right it is would miss them)
        sw = ''.join(ch for ch in 'KQkq' if ch in p[2].swapcase())
        if sw != p[2]:
            out.append(('rights-colour-swapped', ' '.join([p[0], p[1], sw] + p[3:]), False))
        for pair in ('Kk', 'Qq'):
            if pair[0] in p[2] and pair[1] in p[2]:
                out.append(('symmetric-pair-of-rights-removed', ' '.join([p[0], p[1], p[2].replace(pair[0], '').replace(pair[1], '') or '-'] + p[3:]), False))
    out.append(('side-to-move', ' '.join([p[0], 'b' if p[1] == 'w' else 'w', p[2], '-'] + p[4:]), False))
    if p[3] != '-':
        out.append(('ep-target-removed', ' '.join(p[:3] + ['-'] + p[4:]), None))      # equal iff the capture was not available
    return out

def check_C08(chk, binp):
    quick = chk.tier == 'quick'
    rnd = random.Random(chk.seed)
    seeds = [rnd.randrange(1 << 40) for _ in range(4 if quick else 64)]
    pos = G.positions(chk.seed, chk.tier, 'C08')
    hs = run_cases(binp, ['hashstream\t%d' % s for s in seeds], 'C08-hs', shards=1)
    prel = ['sethasher\t%d\t%s' % (s, st) for s, st in zip(seeds, hs)]
    # variants (must stay legal positions)
    var = []
    for f in pos:
        for cls, v, eq in fen_variants(rnd, f):
            var.append((f, cls, v, eq))
    legal = set(G.filter_legal([v[2] for v in var], 'C08-lp'))
    var = [v for v in var if v[2] in legal]
    allf = list(dict.fromkeys(pos + [v[2] for v in var]))
    keys = dict(zip(allf, run_cases(MODEL, ['rulekey\t' + f for f in allf], 'C08-rk')))
    sel_seeds = seeds[:2] if quick else seeds[:8]
    cases = ['hash\t%d\t%s' % (s, f) for f in allf for s in sel_seeds]
    impl = run_cases(binp, cases, 'C08-impl')
    model = run_cases(MODEL, cases, 'C08-model', prelude=prel)
    bad = stream(chk, 'hash value per (seed, position)', cases, impl, model, 'extracted implementation model (Text.hash) with the key stream of the same seed')
    H = {}
    for c, r in zip(cases, impl):
        _, s, f = c.split('\t')
        H[(s, f)] = r
    # property directly on the code: equal rule key <=> equal hash, for every seed
    viol = []
    groups = {}
    for f in allf:
        groups.setdefault(keys[f], []).append(f)
    npairs = 0
    for k, fs in groups.items():
        for s in sel_seeds:
            hv = set(H[(str(s), f)] for f in fs)
            npairs += len(fs) - 1
            if len(hv) > 1:
                a = fs[0]
                b = [f for f in fs if H[(str(s), f)] != H[(str(s), a)]][0]
                viol.append(('positions with the same placement/side/rights/ep-availability hash differently (seed %d)' % s, [a, b], True))
    reps = [fs[0] for fs in groups.values()]
    byhash = {}
    for s in sel_seeds:
        seen = {}
        for f in reps:
            h = H[(str(s), f)]
            if h in seen:
                byhash.setdefault((seen[h], f), []).append(s)
            seen[h] = f
    for (f1, f2), ss in byhash.items():
        if len(ss) == len(sel_seeds):
            viol.append(('positions with different rule keys collide under every seed', [f1, f2], True))
    # EXHAUSTIVE over the features: the key of every (piece, square), of the side to move and of each castling right is recovered
    # through the public API as hash(empty board + that one feature) xor hash(empty board); all 773 keys must be pairwise
    # different and non-zero under every seed of the run (two features sharing a key = a structural collision)
    def one_piece(ch, sq):
        rows = []
        for r in range(7, -1, -1):
            row = ''
            for fl in range(8):
                row += ch if r * 8 + fl == sq else '1'
            rows.append(re.sub(r'1+', lambda m: str(len(m.group(0))), row))
        return '/'.join(rows) + ' w - - 0 1'
    EMPTY = '8/8/8/8/8/8/8/8 w - - 0 1'
    feats = [('empty', EMPTY), ('side', '8/8/8/8/8/8/8/8 b - - 0 1')] + [('right ' + r, '8/8/8/8/8/8/8/8 w %s - 0 1' % r) for r in 'KQkq']
    feats += [('%s on %s' % (ch, 'abcdefgh'[sq % 8] + str(sq // 8 + 1)), one_piece(ch, sq)) for ch in 'PNBRQKpnbrqk' for sq in range(64)]
    fcases = ['hash\t%d\t%s' % (sd, f) for sd in sel_seeds for (_, f) in feats]
    fimpl = run_cases(binp, fcases, 'C08-feat')
    fviol = []
    for k, sd in enumerate(sel_seeds):
        hv = fimpl[k * len(feats):(k + 1) * len(feats)]
        if any(h is None or not h.isdigit() for h in hv):
            fviol.append(('feature hashing failed under seed %d' % sd, [feats[j][1] for j, h in enumerate(hv) if h is None or not h.isdigit()][:2])); continue
        h0 = int(hv[0])
        keys_seen = {}
        for (name, fen), h in list(zip(feats, hv))[1:]:
            key = int(h) ^ h0
            if key == 0:
                fviol.append(('the feature "%s" has no key: adding it does not change the hash (seed %d)' % (name, sd), [EMPTY, fen]))
            elif key in keys_seen:
                fviol.append(('the features "%s" and "%s" share a key: placements that differ only in them collide (seed %d)' % (keys_seen[key][0], name, sd), [keys_seen[key][1], fen]))
            keys_seen.setdefault(key, (name, fen))
    # a shared key is structural when it shows under EVERY seed
    shared = {}
    for what, fs in fviol:
        shared.setdefault(what.rsplit(' (seed', 1)[0], []).append(fs)
    fstruct = [(w, l[0]) for w, l in shared.items() if len(l) == len(sel_seeds)]
    chk.streams.append({'name': 'all 773 feature keys (768 piece-square, side, 4 rights) recovered through the public API are pairwise different and non-zero', 'against': 'the property (structural collisions)', 'cases': len(fcases), 'disagreements': len(fstruct)})
    chk.evaluations += len(fcases)
    for w, fs in fstruct[:3]:
        viol.append((w + ' under every seed', fs, True))
    classes = {}
    for f, cls, v, eq in var:
        classes[cls] = classes.get(cls, 0) + 1
    chk.extra['variant_classes'] = classes
    chk.extra['rulekey_groups'] = len(groups)
    chk.extra['transposition_groups_with_several_members'] = sum(1 for fs in groups.values() if len(fs) > 1)
    chk.extra['seeds'] = len(sel_seeds)
    chk.streams.append({'name': 'equal rule key <=> equal hash under every seed (pairs differing in one component, transpositions)', 'against': 'rule key computed by the extracted rules specification', 'cases': npairs + len(reps), 'disagreements': len(viol)})
    chk.evaluations += npairs
    for f in allf:
        chk.distinct.add(f)
    chk.rule = 'positions as in C01 plus the complete en-passant family (colour x target file x capturing neighbours) plus one-component variants (counters, one right, side, ep target); grouped by the rule key that the extracted Rules compute; every hasher seed of the run'
    chk.samples += [{'pair': [v[0], v[2]], 'class': v[1]} for v in var[:3]]
    for what, fs, found in viol[:3]:
        chk.violation('%s: %s' % (what, fs), {'kind': 'input', 'fens': fs, 'what': what}, found_input=True)
    if not viol:
        for i in bad[:3]:
            chk.violation('correspondence broken (hash): %s code=%s model=%s' % (cases[i], impl[i], model[i]), {'kind': 'correspondence', 'case': cases[i]}, found_input=False)

# ------------------------------------------------------------------ C10
def arbitrary_placements(rnd, n):
    out = []
    for _ in range(n):
        k = rnd.randrange(0, 20)
        sqs = rnd.sample(range(64), k)
        m = {s: rnd.choice('PNBRQKpnbrqk') for s in sqs}
        out.append(G.fen_from_map(m, rnd.choice('wb')))
    return out

def check_C10(chk, binp):
    quick = chk.tier == 'quick'
    rnd = random.Random(chk.seed)
    pos = G.positions(chk.seed, chk.tier, 'C10') + arbitrary_placements(rnd, 400 if quick else 8000)
    cases = ['attacks\t' + f for f in pos]
    impl = run_cases(binp, cases, 'C10-impl')
    model = run_cases(MODEL, cases, 'C10-model')
    spec = run_cases(MODEL, ['specattacks\t' + f for f in pos], 'C10-spec')
    bm = stream(chk, 'attacked-square sets, pawn attack sets, check flags, both colours', cases, impl, model, 'extracted implementation model (Board.v)')
    bs = stream(chk, 'attacked-square sets, pawn attack sets, check flags, both colours', cases, impl, spec, 'extracted rules specification (attacks_from per piece, minus own squares)')
    opsl = ['aw', 'ab', 'pw', 'pb', 'cw', 'cb', 'clone', 'switch']
    oc = []
    for f in rnd.sample(pos, min(len(pos), 300 if quick else 4000)):
        oc.append('attackops\t%s\t%s' % (f, ','.join(rnd.choice(opsl) for _ in range(rnd.randrange(2, 25)))))
    oi = run_cases(binp, oc, 'C10-ops-impl')
    om = run_cases(MODEL, oc, 'C10-ops-model')
    bo = stream(chk, 'query/clone op sequences on one position object', oc, oi, om, 'extracted model of the OnceCell cache (answers are pure)')
    # purity directly: every answer of a sequence equals the fresh answer
    fresh = dict(zip(pos, impl))
    pure_bad = []
    for c, r in zip(oc, oi):
        f, ops = c.split('\t')[1:]
        base = (fresh.get(f) or '').split(',')
        if r is None or len(base) < 7:
            continue
        idx = {'aw': 0, 'ab': 1, 'pw': 2, 'pb': 3, 'cw': 4, 'cb': 5}
        ans = r.split(',') if r else []
        j = 0
        for op in ops.split(','):
            if op in idx:
                if j >= len(ans) or ans[j] != base[idx[op]]:
                    pure_bad.append(c); break
                j += 1
    chk.streams.append({'name': 'answers independent of query order and clones', 'against': 'the fresh answers of the same code', 'cases': len(oc), 'disagreements': len(pure_bad)})
    for f in pos:
        chk.distinct.add(f.split(' ')[0])
    chk.extra['arbitrary_placements'] = sum(1 for f in pos if f.count('K') != 1 or f.count('k') != 1)
    chk.rule = 'legal positions as in C01 plus random arbitrary placements (0..19 pieces, any number of kings, pawns anywhere); distinct by placement'
    chk.samples += [{'fen': pos[-1], 'code': impl[-1]}, {'ops': oc[0], 'code': oi[0]}]
    for i in bs[:3]:
        chk.violation('attack sets / check differ from the rules on %s: code %s, rules %s' % (pos[i], impl[i], spec[i]), {'kind': 'input', 'fen': pos[i], 'code': impl[i], 'spec': spec[i]}, found_input=True)
    for c in pure_bad[:3]:
        chk.violation('answers depend on query order / clones: %s' % c, {'kind': 'history', 'case': c}, found_input=True)
    if not bs and not pure_bad:
        for i in bm[:2]:
            chk.violation('correspondence broken (attacks) on %s' % pos[i], {'kind': 'correspondence', 'fen': pos[i]}, found_input=False)
        for i in bo[:2]:
            chk.violation('correspondence broken (attack ops) on %s' % oc[i], {'kind': 'correspondence', 'case': oc[i]}, found_input=False)

# ------------------------------------------------------------------ C11
def rights_subsets(r):
    if r == '-':
        return ['-']
    out = set()
    for mask in range(1 << len(r)):
        sub = ''.join(ch for i, ch in enumerate(r) if mask >> i & 1)
        out.add(sub or '-')
    return sorted(out)

def check_C11(chk, binp):
    quick = chk.tier == 'quick'
    rnd = random.Random(chk.seed)
    pos = G.positions(chk.seed, chk.tier, 'C11')        # written by the independent writer FenSpec.write (playouts) or by the generators
    canon = []
    for f in pos:
        p = f.split(' ')
        canon.append(f)
        if rnd.random() < 0.5:
            for r in rights_subsets(p[2])[:16]:
                canon.append(' '.join([p[0], p[1], r, p[3], rnd.choice(['0', '1', '99', '4294967296', '18446744073709551615']), rnd.choice(['1', '2', '4294967295', '18446744073709551615', '18446744073709551614'])]))
    canon = list(dict.fromkeys(canon))
    c1 = ['fenrt\t' + G.esc(f) for f in canon]
    i1 = run_cases(binp, c1, 'C11-rt-impl')
    m1 = run_cases(MODEL, c1, 'C11-rt-model')
    b1 = stream(chk, 'write(read(str)) on canonical strings', c1, i1, m1, 'extracted implementation model (fen_read / fen_write)')
    notid = [i for i, (f, r) in enumerate(zip(canon, i1)) if r != 'ok ' + f]
    chk.streams.append({'name': 'canonical FEN reproduced character for character', 'against': 'the input string itself (written by the independent writer)', 'cases': len(canon), 'disagreements': len(notid)})
    c2 = ['fensame\t' + G.esc(f) for f in canon]
    i2 = run_cases(binp, c2, 'C11-same-impl')
    ns = [i for i, r in enumerate(i2) if r is None or not r.startswith('same ')]
    chk.streams.append({'name': 'position written and read back: equal state, same FEN again, same legal moves, hash, evaluation', 'against': 'self-consistency of the code on play-reached states', 'cases': len(canon), 'disagreements': len(ns)})
    strs = G.fen_strings(chk.seed, canon, 3000 if quick else 100000)
    c3 = ['fenrt\t' + G.esc(s) for s in strs]
    i3 = run_cases(binp, c3, 'C11-mut-impl')
    m3 = run_cases(MODEL, c3, 'C11-mut-model')
    b3 = stream(chk, 'reader outcome (Ok fen / Err) on mutated strings', c3, i3, m3, 'extracted implementation model')
    chk.extra['outcome_classes_mutated'] = hist([(r or 'none').split(' ')[0] for r in i3])
    chk.extra['ep_rank_counts'] = hist([f.split(' ')[3][1:] if f.split(' ')[3] != '-' else '-' for f in canon])
    chk.extra['rights_sets_seen'] = len(set(f.split(' ')[2] for f in canon))
    for f in canon:
        chk.distinct.add(f)
    chk.rule = 'canonical strings: positions reached by spec playouts (written by the independent FenSpec.write), corpus, small families, with all subsets of the held castling rights and extreme counters; plus seeded mutations'
    chk.samples += [{'str': canon[len(canon) // 2], 'code': i1[len(canon) // 2]}]
    for i in notid[:3]:
        chk.violation('canonical FEN not reproduced: %s -> %s' % (canon[i], i1[i]), {'kind': 'input', 'fen': canon[i], 'code': i1[i]}, found_input=True)
    for i in ns[:3]:
        chk.violation('position changes when written and read back: %s -> %s' % (canon[i], i2[i]), {'kind': 'input', 'fen': canon[i], 'code': i2[i]}, found_input=True)
    if not notid and not ns:
        for i in (b1 + b3)[:3]:
            c = (c1 + c3)[i] if i < len(c1) else c3[i]
        for i in b1[:2]:
            chk.violation('correspondence broken (fen round trip) on %s: code %s model %s' % (c1[i], i1[i], m1[i]), {'kind': 'correspondence', 'case': c1[i]}, found_input=False)
        for i in b3[:2]:
            chk.violation('correspondence broken (fen reader) on %s: code %s model %s' % (c3[i], i3[i], m3[i]), {'kind': 'correspondence', 'case': c3[i]}, found_input=False)

# ------------------------------------------------------------------ C13 / C05
def mirror_fen(f):
    p = f.split(' ')
    rows = p[0].split('/')[::-1]
    rows = [r.swapcase() for r in rows]
    side = 'b' if p[1] == 'w' else 'w'
    if p[2] == '-':
        rights = '-'
    else:
        sw = p[2].swapcase()
        rights = ''.join(ch for ch in 'KQkq' if ch in sw)
    ep = p[3] if p[3] == '-' else p[3][0] + str(9 - int(p[3][1]))
    return ' '.join(['/'.join(rows), side, rights, ep, p[4], p[5]])

PLIES = '0,1,2,5,9,10,11,12,40'
def mate_score(d):
    return 10000 + 100 * max(10 - d, 0)

def mating_family(rnd, n):
    """K+k+heavy pieces with the lone king near the rim: rich in mates and stalemates"""
    out = []
    rim = [s for s in range(64) if s % 8 in (0, 7) or s // 8 in (0, 7)]
    for _ in range(n):
        bk = rnd.choice(rim)
        near = [s for s in range(64) if s != bk and max(abs(s % 8 - bk % 8), abs(s // 8 - bk // 8)) <= 3]
        extra = rnd.choice(['Q', 'R', 'QQ', 'RR', 'QR', 'QB', 'RN', 'Qp', 'Rp', 'QP', 'BB', 'BN'])
        sqs = rnd.sample(near, min(len(near), 1 + len(extra)))
        if len(sqs) < 1 + len(extra):
            continue
        m = {bk: 'k', sqs[0]: 'K'}
        okp = True
        for s, c in zip(sqs[1:], extra):
            if c in 'Pp' and (s < 8 or s >= 56):
                okp = False
            m[s] = c
        if not okp:
            continue
        f = G.fen_from_map(m, 'b')
        out.append(f if rnd.random() < 0.5 else mirror_fen(f))
    return out

# stalemates in which the stalemated side still has a piece with pseudo-legal moves, all illegal because of an absolute pin
# (knight, bishop on a rank, pawn and rook on a diagonal), with their mirror images; and a seeded family of the same kind
PINNED_STALEMATES = ['8/8/8/8/8/6k1/8/r5NK w - - 0 1', 'kb5R/8/1K6/8/8/8/8/8 b - - 0 1', 'b1k5/8/3b4/8/8/8/4n1P1/7K w - - 0 1',
                     'k7/1r1N4/1K6/8/8/8/8/7B b - - 0 1', 'k7/1n1N4/1K6/8/8/8/8/7B b - - 0 1', 'kn5R/8/1K6/8/8/8/8/8 b - - 0 1',
                     '7k/6p1/5N1K/8/8/8/8/1B6 b - - 0 1']

def pinned_family(rnd, n):
    """defender: king in a corner with one more piece next to it; attacker: king, a slider somewhere on a line through the
    defender's piece and king, and one more piece: candidates for stalemates with a pinned piece (the rules decide)"""
    out = []
    for _ in range(n):
        corner = rnd.choice([0, 7, 56, 63])
        adj = [s for s in range(64) if s != corner and max(abs(s % 8 - corner % 8), abs(s // 8 - corner // 8)) == 1]
        ps = rnd.choice(adj)
        df, dr = ps % 8 - corner % 8, ps // 8 - corner // 8
        line = []
        f, r = ps % 8 + df, ps // 8 + dr
        while 0 <= f <= 7 and 0 <= r <= 7:
            line.append(r * 8 + f); f += df; r += dr
        if len(line) < 2:
            continue
        slider = rnd.choice(line[1:])
        m = {corner: 'k', ps: rnd.choice('nbrp' if ps // 8 not in (0, 7) else 'nbr'), slider: ('R' if 0 in (df, dr) else 'B') if rnd.random() < 0.8 else 'Q'}
        free = [s for s in range(64) if s not in m and max(abs(s % 8 - corner % 8), abs(s // 8 - corner // 8)) <= 3]
        if len(free) < 2:
            continue
        a, b = rnd.sample(free, 2)
        m[a] = 'K'; m[b] = rnd.choice('NBRQN')
        if len(m) != 5:
            continue
        f0 = G.fen_from_map(m, 'b')
        out.append(f0 if rnd.random() < 0.5 else mirror_fen(f0))
    return out

def eval_positions(chk, tag):
    quick = chk.tier == 'quick'
    rnd = random.Random(chk.seed + 5)
    pos = G.positions(chk.seed, chk.tier, tag)
    fam = mating_family(rnd, 6000 if quick else 200000) + pinned_family(rnd, 4000 if quick else 100000)
    pos += G.filter_legal(list(dict.fromkeys(fam + PINNED_STALEMATES + [mirror_fen(f) for f in PINNED_STALEMATES])), tag + '-mf')
    return list(dict.fromkeys(pos))

def check_C13(chk, binp):
    pos = eval_positions(chk, 'C13')
    mir = [mirror_fen(f) for f in pos]
    c = ['eval\t%s\t%s' % (f, PLIES) for f in pos]
    cm = ['eval\t%s\t%s' % (f, PLIES) for f in mir]
    impl = run_cases(binp, c, 'C13-impl')
    implm = run_cases(binp, cm, 'C13-implm')
    model = run_cases(MODEL, c, 'C13-model')
    bm = stream(chk, 'exact integer scores, both perspectives, plies ' + PLIES, c, impl, model, 'extracted implementation model (bit-exact f32 evaluator)')
    neg = []; mirb = []
    for i, (a, b) in enumerate(zip(impl, implm)):
        if a is None or b is None or a in ('panic', 'badfen') or b in ('panic', 'badfen'):
            neg.append(i); continue
        pa = [x.split('/') for x in a.split(',')]
        pb = [x.split('/') for x in b.split(',')]
        if any(int(w) != -int(bl) for w, bl in pa):
            neg.append(i)
        # mirrored position, mirrored perspective: white score of s = black score of mirror s
        if any(int(x[0]) != int(y[1]) or int(x[1]) != int(y[0]) for x, y in zip(pa, pb)):
            mirb.append(i)
    chk.streams.append({'name': 'score(White) = -score(Black)', 'against': 'the equation itself (metamorphic)', 'cases': len(pos), 'disagreements': len(neg)})
    chk.streams.append({'name': 'score(mirror s, opposite perspective) = score(s, perspective)', 'against': 'the equation itself (metamorphic)', 'cases': len(pos), 'disagreements': len(mirb)})
    chk.evaluations += 2 * len(pos)
    term = sum(1 for a in impl if a and abs(int(a.split(',')[0].split('/')[0])) >= 10000)
    chk.extra['terminal_scored_positions'] = term
    for f in pos:
        chk.distinct.add(f.split(' ')[0] + f.split(' ')[1])
    chk.rule = 'positions as in C01 plus K+k+heavy-piece families rich in mates/stalemates, each with its colour-mirrored twin; distinct by placement and side'
    chk.samples += [{'fen': pos[0], 'mirror': mir[0], 'code': impl[0], 'code_mirror': implm[0]}]
    for i in neg[:3]:
        chk.violation('White and Black scores are not negations on %s: %s' % (pos[i], impl[i]), {'kind': 'input', 'fen': pos[i], 'code': impl[i]}, found_input=True)
    for i in mirb[:3]:
        chk.violation('mirrored position scores differently: %s -> %s ; %s -> %s' % (pos[i], impl[i], mir[i], implm[i]), {'kind': 'input', 'fen': pos[i], 'mirror': mir[i], 'code': impl[i], 'code_mirror': implm[i]}, found_input=True)
    if not neg and not mirb:
        for i in bm[:3]:
            chk.violation('correspondence broken (evaluator) on %s: code %s model %s' % (pos[i], impl[i], model[i]), {'kind': 'correspondence', 'fen': pos[i], 'code': impl[i], 'model': model[i]}, found_input=False)

def check_C05(chk, binp):
    pos = eval_positions(chk, 'C05')
    c = ['eval\t%s\t%s' % (f, PLIES) for f in pos]
    impl = run_cases(binp, c, 'C05-impl')
    model = run_cases(MODEL, c, 'C05-model')
    term = run_cases(MODEL, ['specterm\t' + f for f in pos], 'C05-term')
    bm = stream(chk, 'exact integer scores, both perspectives, plies ' + PLIES, c, impl, model, 'extracted implementation model (bit-exact f32 evaluator)')
    plies = [int(x) for x in PLIES.split(',')]
    bad = []
    counts = {'mate': 0, 'stale': 0, 'none': 0}
    for i, (f, a, t) in enumerate(zip(pos, impl, term)):
        if t not in counts:
            continue
        counts[t] += 1
        if a is None or a in ('panic', 'badfen'):
            bad.append((i, 'no score (%s)' % a)); continue
        white_to_move = f.split(' ')[1] == 'w'
        for d, x in zip(plies, a.split(',')):
            w, b = [int(v) for v in x.split('/')]
            if t == 'mate':
                exp_w = -mate_score(d) if white_to_move else mate_score(d)
                if (w, b) != (exp_w, -exp_w):
                    bad.append((i, 'checkmate scored %d/%d at ply %d, expected %d/%d' % (w, b, d, exp_w, -exp_w))); break
            elif t == 'stale':
                if (w, b) != (0, 0):
                    bad.append((i, 'stalemate scored %d/%d' % (w, b))); break
            else:
                imbalance = abs(material(f))
                if imbalance < 9000 and (abs(w) >= 10000 or abs(b) >= 10000):
                    bad.append((i, 'position with a legal move scored terminal %d/%d' % (w, b))); break
    chk.streams.append({'name': 'mate / stalemate / non-terminal classification and exact mate scores', 'against': 'extracted rules specification (Rules.checkmate / stalemate)', 'cases': len(pos), 'disagreements': len(bad)})
    chk.evaluations += len(pos)
    mono = all(mate_score(d) >= 10000 and mate_score(d + 1) <= mate_score(d) for d in range(0, 64))
    chk.extra['class_counts'] = counts
    for f in pos:
        chk.distinct.add(f.split(' ')[0] + f.split(' ')[1])
    chk.rule = 'positions as in C01 plus K+k+heavy-piece families rich in mates/stalemates (classified by the extracted Rules); distinct by placement and side'
    chk.samples += [{'fen': pos[i], 'class': term[i], 'code': impl[i]} for i in range(len(pos)) if term[i] in ('mate', 'stale')][:3]
    for i, msg in bad[:3]:
        chk.violation('%s: %s' % (pos[i], msg), {'kind': 'input', 'fen': pos[i], 'what': msg, 'code': impl[i]}, found_input=True)
    if not bad:
        for i in bm[:3]:
            chk.violation('correspondence broken (evaluator) on %s: code %s model %s' % (pos[i], impl[i], model[i]), {'kind': 'correspondence', 'fen': pos[i]}, found_input=False)

WORTH = {'p': 100, 'n': 300, 'b': 350, 'r': 500, 'q': 900, 'k': 10000}
def material(f):
    t = 0
    for ch in f.split(' ')[0]:
        if ch.lower() in WORTH:
            t += WORTH[ch.lower()] if ch.isupper() else -WORTH[ch.lower()]
    return t

# ------------------------------------------------------------------ C12
def check_C12(chk, binp):
    quick = chk.tier == 'quick'
    rnd = random.Random(chk.seed)
    pos = G.positions(chk.seed, chk.tier, 'C12', n_playouts=24 if quick else 300, n_small=120 if quick else 3000)
    if quick:
        pos = pos[:60] + rnd.sample(pos[60:], min(len(pos) - 60, 500))
    sc = run_cases(MODEL, ['sancases\t' + f for f in pos], 'C12-cases')
    cases = []; expect = []
    kinds = {'positive': 0, 'negative': 0, 'with-disambiguation': 0, 'promotion-suffix': 0, 'castle': 0, 'check-mark': 0}
    for f, r in zip(pos, sc):
        if not r or r == 'badfen':
            continue
        for item in r.split(' '):
            if '>' not in item:
                continue
            sp, mv = item.rsplit('>', 1)
            cases.append('san\t%s\t%s' % (f, G.esc(sp)))
            expect.append('ok ' + mv)
            if mv == '':
                kinds['negative'] += 1
            else:
                kinds['positive'] += 1
                if sp.startswith('O-O'): kinds['castle'] += 1
                if '=' in sp or sp.rstrip('+#')[-1:] in 'QRBN': kinds['promotion-suffix'] += 1
                if sp.endswith('+') or sp.endswith('#'): kinds['check-mark'] += 1
                core = sp.rstrip('+#')
                if len(core) >= 4 and core[0] in 'NBRQK' and not core.startswith('O'):
                    body = core[1:].replace('x', '')
                    if len(body) > 2: kinds['with-disambiguation'] += 1
    impl = run_cases(binp, cases, 'C12-impl')
    model = run_cases(MODEL, cases, 'C12-model')
    bm = stream(chk, 'SAN text -> set of legal moves matched', cases, impl, model, 'extracted implementation model (san_parse + qtest over gen_legal)')
    bs = [i for i, (a, e) in enumerate(zip(impl, expect)) if a != e]
    chk.streams.append({'name': 'every admissible spelling selects exactly its move; illegal long forms select none', 'against': 'extracted SanSpec.spellings / Rules', 'cases': len(cases), 'disagreements': len(bs)})
    lc = ['lan\t' + f for f in pos]
    li = run_cases(binp, lc, 'C12-lan-impl')
    lm = run_cases(MODEL, lc, 'C12-lan-model')
    bl = stream(chk, 'coordinate text of every legal move and what it selects again', lc, li, lm, 'extracted implementation model (lan_write, uci_move_query, resolve)')
    lanbad = []
    files = 'abcdefgh'
    for i, r in enumerate(li):
        if r is None or r in ('badfen', 'panic'):
            lanbad.append((i, str(r))); continue
        if r == '':
            continue
        for it in r.split(';'):
            mv, text, same = it.split('>')
            o, d, p = [int(x) for x in mv.split('/')]
            exp = files[o % 8] + str(o // 8 + 1) + files[d % 8] + str(d // 8 + 1) + {0: '', 2: 'n', 3: 'b', 4: 'r', 5: 'q'}[p]
            if text != exp or same != '1':
                lanbad.append((i, it)); break
    chk.streams.append({'name': 'LAN = origin+destination+lower-case promotion letter and selects the same move again', 'against': 'coordinate text computed by the checker', 'cases': len(lc), 'disagreements': len(lanbad)})
    chk.extra['spelling_kinds'] = kinds
    for c in cases:
        chk.distinct.add(c)
    chk.rule = 'for each position (corpus, spec playouts, small families): every legal move x every admissible spelling produced by the independent writer SanSpec.spellings, and the fully qualified spelling of every pseudo-legal but illegal move as negative case'
    chk.samples += [{'case': cases[i], 'expected': expect[i], 'code': impl[i]} for i in (0, len(cases) // 3, len(cases) - 1) if cases]
    for i in bs[:3]:
        chk.violation('SAN %s: code matched %s, expected %s' % (cases[i].split('\t', 1)[1], impl[i], expect[i]), {'kind': 'input', 'case': cases[i], 'code': impl[i], 'expected': expect[i]}, found_input=True)
    for i, it in lanbad[:3]:
        chk.violation('coordinate notation wrong on %s: %s' % (pos[i], it), {'kind': 'input', 'fen': pos[i], 'item': it}, found_input=True)
    if not bs and not lanbad:
        for i in bm[:2]:
            chk.violation('correspondence broken (san) on %s: code %s model %s' % (cases[i], impl[i], model[i]), {'kind': 'correspondence', 'case': cases[i]}, found_input=False)
        for i in bl[:2]:
            chk.violation('correspondence broken (lan) on %s' % lc[i], {'kind': 'correspondence', 'case': lc[i]}, found_input=False)

# ------------------------------------------------------------------ search properties
def raw_coords(raw):
    r = int(raw)
    return (r >> 4) & 63, (r >> 10) & 63, (r >> 20) & 15

def parse_search(out):
    """'P1:33 B227:268762962 ... #138 t123 || ...' -> list of dicts per search of the chain"""
    res = []
    if out is None:
        return None
    for part in out.split(' || '):
        d = {'best': [], 'progress': [], 'nodes': None, 'raw': part}
        for tok in part.split(' '):
            if tok.startswith('B'):
                ev, line = tok[1:].split(':', 1)
                d['best'].append((int(ev), [x for x in line.split(',') if x]))
            elif tok.startswith('P'):
                d['progress'].append(tok)
            elif tok.startswith('#'):
                d['nodes'] = int(tok[1:])
        res.append(d)
    return res

def search_positions(chk, tag, n):
    rnd = random.Random(chk.seed + 11)
    pos = G.positions(chk.seed, chk.tier, tag, n_playouts=24 if chk.tier == 'quick' else 200, n_small=200 if chk.tier == 'quick' else 3000)
    term = run_cases(MODEL, ['specterm\t' + f for f in pos], tag + '-term')
    live = [f for f, t in zip(pos, term) if t == 'none']
    dead = [f for f, t in zip(pos, term) if t in ('mate', 'stale')]
    small = [f for f in live if sum(c.isalpha() for c in f.split(' ')[0]) <= 7]
    big = [f for f in live if f not in set(small)]
    sel = rnd.sample(small, min(len(small), n * 2 // 3)) + rnd.sample(big, min(len(big), n // 3))
    return sel, dead

def rights_pairs(rnd, n):
    """positions that differ only in castling rights / en-passant state (same placement)"""
    base = ['r3k2r/8/8/8/8/8/8/R3K2R w KQkq - 0 1', '4k3/8/8/8/8/8/8/4K2R w K - 0 1', 'r3k3/8/8/8/8/8/8/4K3 b q - 0 1',
            'r3k2r/pppq1ppp/2n2n2/3pp3/3PP3/2N2N2/PPPQ1PPP/R3K2R w KQkq - 4 8', '4k3/8/8/3pP3/8/8/8/4K3 w - d6 0 2', '4k3/8/8/8/3Pp3/8/8/4K3 b - d3 0 1']
    out = []
    for b in base:
        p = b.split(' ')
        variants = [b]
        if p[2] != '-':
            for r in rights_subsets(p[2]):
                variants.append(' '.join([p[0], p[1], r] + p[3:]))
        if p[3] != '-':
            variants.append(' '.join(p[:3] + ['-'] + p[4:]))
        for _ in range(n):
            out.append('|'.join(rnd.sample(variants, min(len(variants), rnd.randrange(2, 5)))))
    return out

def run_search_cases(chk, binp, tag, cases, with_model=True):
    impl = run_cases(binp, cases, tag + '-impl')
    model = run_cases(MODEL, cases, tag + '-model') if with_model else None
    return impl, model

def check_lines_legal(chk, tag, cases, impl, need_report=True):
    """every reported line legal under the rules; at least one report per search of a live position"""
    q = []; idx = []
    for i, (c, out) in enumerate(zip(cases, impl)):
        fens = [x.rsplit('@', 1)[0] for x in c.split('\t')[-1].split('|')]
        ps = parse_search(out)
        if ps is None or len(ps) != len(fens):
            continue
        for f, d in zip(fens, ps):
            for ev, line in d['best']:
                q.append('specline\t%s\t%s' % (f, ','.join(line))); idx.append((i, f, ev, line))
    res = run_cases(MODEL, q, tag + '-lines')
    bad = [(idx[j], r) for j, r in enumerate(res) if r != 'legal']
    return bad, len(q)

def check_C19(chk, binp):
    quick = chk.tier == 'quick'
    rnd = random.Random(chk.seed)
    sel, dead = search_positions(chk, 'C19', 160 if quick else 1500)
    cases = []
    for f in sel + dead[:10]:
        d = rnd.choice([1, 2, 2, 3] if quick else [1, 2, 3, 3, 4])
        # tiny tables included: buckets overflow and entries are displaced, which must not bring in any state from outside the run
        nt, nb = rnd.choice([(2, 64), (4, 256), (1, 16), (1, 1), (1, 2), (2, 2)])
        cases.append('search\t%d\t%d\t%d\t-\t1\t%d\t%d\t-\t%s' % (rnd.randrange(1 << 30), rnd.randrange(1 << 50), d, nt, nb, f))
    impl, model = run_search_cases(chk, binp, 'C19', cases)
    impl2 = run_cases(binp, cases, 'C19-impl2', shards=5)       # a different process and partition
    impl3 = run_cases(binp, list(reversed(cases)), 'C19-impl3', shards=3)[::-1]
    b12 = stream(chk, 'events + node counts + per-node trace checksum, run 1 vs run 2 (other process)', cases, impl, impl2, 'the same code, second process')
    b13 = stream(chk, 'events + node counts + per-node trace checksum, run 1 vs run 3 (other process, other order)', cases, impl, impl3, 'the same code, third process')
    bm = stream(chk, 'events + node counts + per-node trace checksum', cases, impl, model, 'extracted search model driven only by (position, seed-derived streams, depth)')
    # the PUBLIC entry point (worker count chosen by the engine: one worker below iteration depth 3), depth limits 1..3, fresh default
    # memory; wide-open middlegames included (many nodes in the first iterations)
    WIDE = ['2rq1rk1/pb2bppp/1pn1pn2/3p4/3P1B2/2NBPN2/PP2QPPP/2R2RK1 w - - 0 12', 'r4rk1/1pp1qppp/p1np1n2/2b1p1B1/2B1P1b1/P1NP1N2/1PP1QPPP/R4RK1 w - - 0 10',
            'r3k2r/p1ppqpb1/bn2pnp1/3PN3/1p2P3/2N2Q1p/PPPBBPPP/R3K2R w KQkq - 0 1', 'r2q1rk1/pP1p2pp/Q4n2/bbp1p3/Np6/1B3NBn/pPPP1PPP/R3K2R b KQ - 0 1']
    pc = ['analyze\t%d\t%d\t%s' % (rnd.randrange(1 << 40), d, f) for f in WIDE + rnd.sample(sel, 4 if quick else 40) for d in ((3,) if quick else (1, 2, 3))]
    pa = run_cases(binp, pc, 'C19-pub1', shards=2, timeout=1200)
    pb = run_cases(binp, list(reversed(pc)), 'C19-pub2', shards=2, timeout=1200)[::-1]
    pm = run_cases(MODEL, pc, 'C19-pubm', timeout=1500)
    bp = stream(chk, 'public entry point, depth limit <= 3: events of run 1 vs run 2 (other process)', pc, pa, pb, 'the same code, second process')
    bpm = stream(chk, 'public entry point, depth limit <= 3: events', pc, pa, pm, 'extracted search model (one worker, hasher and jitter from the seed)')
    for i in bp[:3]:
        chk.violation('public entry: same position, seed and depth limit gave different reports: %s -> %s / %s' % (pc[i], (pa[i] or '')[:200], (pb[i] or '')[:200]), {'kind': 'input', 'case': pc[i], 'run1': pa[i], 'run2': pb[i]}, found_input=True)
    if not bp:
        for i in bpm[:3]:
            chk.violation('correspondence broken (public entry vs search model) on %s: code %s model %s' % (pc[i], (pa[i] or '')[:200], (pm[i] or '')[:200]), {'kind': 'correspondence', 'case': pc[i], 'code': pa[i], 'model': pm[i]}, found_input=False)
    # the same single-worker searches BEFORE and AFTER unrelated multi-worker searches in ONE process: nothing a search leaves
    # behind in the process (statics, lazily initialised state) may change a later fresh-memory search
    pre = cases[:8]
    noise = ['search\t%d\t%d\t3\t-\t%d\t4\t256\t-\t%s' % (rnd.randrange(1 << 30), rnd.randrange(1 << 50), w, f) for w, f in zip([4, 8, 2], WIDE[:3])]
    seq = pre + noise + pre
    so = run_cases(binp, seq, 'C19-seq', shards=1, timeout=1200)
    first, again = so[:len(pre)], so[len(pre) + len(noise):]
    bseq = [i for i in range(len(pre)) if first[i] != again[i]]
    chk.streams.append({'name': 'the same single-worker fresh-memory searches before and after unrelated multi-worker searches in one process', 'against': 'the same code, earlier in the same process', 'cases': len(pre), 'disagreements': len(bseq)})
    chk.evaluations += len(seq)
    for i in bseq[:2]:
        chk.violation('a single-worker fresh-memory search reports something else after unrelated multi-worker searches in the same process: %s -> %s / %s' % (pre[i], (first[i] or '')[:200], (again[i] or '')[:200]), {'kind': 'history', 'sequence': seq, 'case': pre[i], 'before': first[i], 'after': again[i]}, found_input=True)
    for c in cases:
        chk.distinct.add(c.split('\t', 2)[2])
    chk.rule = 'single-worker searches (synchronous hook entry, fresh small artifact) of live and terminal positions at depth 1..3 (quick) / 1..4; each case run in three separate processes and in the extracted model, whose only inputs are the position, the depth and the ChaCha8 streams derived from the seed'
    chk.samples += [{'case': cases[0], 'code': impl[0]}]
    for i in (b12 + b13)[:3]:
        chk.violation('same position, seed and depth gave different reports: %s -> %s / %s / %s' % (cases[i], impl[i], impl2[i], impl3[i]), {'kind': 'input', 'case': cases[i], 'run1': impl[i], 'run2': impl2[i], 'run3': impl3[i]}, found_input=True)
    if not b12 and not b13:
        for i in bm[:3]:
            chk.violation('correspondence broken (search model) on %s: code %s model %s' % (cases[i], (impl[i] or '')[:300], (model[i] or '')[:300]), {'kind': 'correspondence', 'case': cases[i], 'code': impl[i], 'model': model[i]}, found_input=False)

def forced_schedule_cases(rnd, sel, n, depths=(1, 2, 2, 3)):
    """msearch cases: hasher seed, run seed, depth limit, workers, tables, buckets, history, schedule, chain of FENs"""
    out = []
    small = [f for f in sel if sum(c.isalpha() for c in f.split(' ')[0]) <= 7]
    for k in range(n):
        f = rnd.choice(small) if small and (k % 4 != 3) else rnd.choice(sel)
        men = sum(c.isalpha() for c in f.split(' ')[0])
        d = rnd.choice(depths) if men <= 7 else rnd.choice([1, 2])
        nw = rnd.choice([2, 2, 3, 4])
        L = rnd.choice([0, 3, 17, 60, 250, 1500])
        sched = ','.join(str(rnd.randrange(1 << 20)) for _ in range(L)) or '-'
        chain = f if rnd.random() < 0.6 or not small else '|'.join([f, rnd.choice(small)])
        nt, nb = rnd.choice([(1, 1), (2, 16), (4, 64), (1, 4)])
        # a third of the cases with recorded positions (history draws inside the workers)
        hist = '|'.join(rnd.sample(small, min(len(small), rnd.randrange(1, 4)))) if small and rnd.random() < 0.33 else '-'
        out.append('msearch\t%d\t%d\t%d\t%d\t%d\t%d\t%s\t%s\t%s' % (rnd.randrange(1 << 30), rnd.randrange(1 << 50), d, nw, nt, nb, hist, sched, chain))
    return out

def check_C03(chk, binp):
    quick = chk.tier == 'quick'
    rnd = random.Random(chk.seed)
    sel, dead = search_positions(chk, 'C03', 150 if quick else 1500)
    cases = []
    for f in sel:
        d = rnd.choice([1, 2, 2, 3])
        nt, nb = rnd.choice([(1, 1), (2, 16), (4, 64), (1, 4)])
        chain = f if rnd.random() < 0.5 else '|'.join([f] + rnd.sample(sel, 2))
        cases.append('search\t%d\t%d\t%d\t-\t1\t%d\t%d\t-\t%s' % (rnd.randrange(1 << 30), rnd.randrange(1 << 50), d, nt, nb, chain))
    for ch in rights_pairs(rnd, 3 if quick else 30):
        cases.append('search\t%d\t%d\t%d\t-\t1\t%d\t%d\t-\t%s' % (rnd.randrange(1 << 30), rnd.randrange(1 << 50), rnd.choice([2, 3]), 2, 64, ch))
    impl, model = run_search_cases(chk, binp, 'C03', cases)
    bm = stream(chk, 'single worker: events + node trace, chains of searches reusing the artifact (incl. pairs differing only in rights/ep)', cases, impl, model, 'extracted search model')
    # multi-worker: real threads, schedule not controlled; lines checked against the rules
    mw = []
    for f in rnd.sample(sel, min(len(sel), 40 if quick else 600)):
        chain = f if rnd.random() < 0.5 else '|'.join([f] + rnd.sample(sel, 2))
        mw.append('search\t%d\t%d\t%d\t-\t%d\t%d\t%d\t-\t%s' % (rnd.randrange(1 << 30), rnd.randrange(1 << 50), rnd.choice([2, 3]), rnd.choice([2, 3, 4, 8]), 2, rnd.choice([4, 64]), chain))
    for ch in rights_pairs(rnd, 2 if quick else 20):
        mw.append('search\t%d\t%d\t3\t-\t%d\t2\t64\t-\t%s' % (rnd.randrange(1 << 30), rnd.randrange(1 << 50), rnd.choice([2, 4]), ch))
    CASTLE_BASES = ['r3k2r/pppq1ppp/2npbn2/2b1p3/2B1P3/2NPBN2/PPPQ1PPP/R3K2R w KQkq - 4 9', 'r3k2r/pppq1ppp/2npbn2/2b1p3/2B1P3/2NPBN2/PPPQ1PPP/R3K2R b KQkq - 4 9',
                    'r1bqk2r/pppp1ppp/2n2n2/2b1p3/2B1P3/3P1N2/PPP2PPP/RNBQK2R w KQkq - 1 5']
    RV = ['KQkq', '-', 'Kk', 'Qq', 'KQ', 'kq', 'K', 'k', 'Q', 'q']
    for b in CASTLE_BASES[:2 if quick else 3]:
        p = b.split(' ')
        for r1 in RV:
            for r2 in RV:
                if r1 != r2 and (not quick or rnd.random() < 0.5):
                    f1 = ' '.join([p[0], p[1], r1] + p[3:]); f2 = ' '.join([p[0], p[1], r2] + p[3:])
                    mw.append('search\t%d\t%d\t3\t-\t1\t4\t256\t-\t%s|%s' % (rnd.randrange(1 << 30), rnd.randrange(1 << 50), f1, f2))
    mimpl = run_cases(binp, mw, 'C03-mw-impl', shards=8)
    # FORCED SCHEDULES: 2..4 workers whose table operations are served in a seeded order (yield-point hook); the n-worker model
    # (model/Conc.v, the object of the C03_conc / C06_conc theorems) runs under the same schedule: events, final table, schedule use
    ms = forced_schedule_cases(rnd, sel, 28 if quick else 400)
    msi = run_cases(binp, ms, 'C03-ms-impl', shards=8, timeout=900)
    msi2 = run_cases(binp, list(reversed(ms)), 'C03-ms-impl2', shards=5, timeout=900)[::-1]
    msm = run_cases(MODEL, ms, 'C03-ms-model', timeout=1500)
    bs2 = stream(chk, 'forced schedules (2..4 workers): events + final table + schedule entries used, run 1 vs run 2', ms, msi, msi2, 'the same code under the same schedule, second process')
    bsm = stream(chk, 'forced schedules (2..4 workers): events + final table + schedule entries used', ms, msi, msm, 'extracted n-worker model (Conc.analyze_iterativeM) under the same schedule')
    chk.extra['forced_schedules'] = {'cases': len(ms), 'workers': hist([c.split('\t')[4] for c in ms]), 'schedule_lengths': hist([str(len(c.split('\t')[8].split(',')) if c.split('\t')[8] != '-' else 0) for c in ms]),
                                    'entries_used': hist([tok[1:] for o in msi if o for tok in o.split(' ') if tok.startswith('S')])}
    # REUSED MEMORY, deeper first: P searched to depth 3..5, then a position two plies below P searched shallowly with the same
    # memory: the new root was an inner node (often a cut node with a stored bound) of the first search. Real code only;
    # the reports are checked below like all others (at least one non-empty legal line per search)
    roots = [G.START, 'r1bqkbnr/pppp1ppp/2n5/4p3/2B1P3/5N2/PPPP1PPP/RNBQK2R b KQkq - 3 3', 'r1bq1rk1/pp2bppp/2n1pn2/2pp4/3P1B2/2PBPN2/PP1N1PPP/R2QK2R w KQ - 4 8'] + rnd.sample(sel, min(len(sel), 12 if quick else 200))
    g1 = run_cases(MODEL, ['specgen\t' + f for f in roots], 'C03-two-a')
    mids = []
    for f, r in zip(roots, g1):
        succ = [x.split('=', 1)[1] for x in (r or '').split(';') if '=' in x]
        for m in rnd.sample(succ, min(len(succ), 3)):
            mids.append((f, m))
    g2 = run_cases(MODEL, ['specgen\t' + m for (_, m) in mids], 'C03-two-b')
    deepch = []
    for (f, m), r in zip(mids, g2):
        succ = [x.split('=', 1)[1] for x in (r or '').split(';') if '=' in x]
        for p2 in rnd.sample(succ, min(len(succ), 2)):
            men = sum(c.isalpha() for c in f.split(' ')[0])
            d1 = rnd.choice([3, 4, 5]) if men <= 12 else rnd.choice([3, 4])
            nt, nb = rnd.choice([(4, 256), (2, 64), (8, 1024)])
            deepch.append('search\t%d\t%d\t%d\t-\t1\t%d\t%d\t-\t%s@%d|%s@%d' % (rnd.randrange(1 << 30), rnd.randrange(1 << 50), d1, nt, nb, f, d1, p2, rnd.choice([1, 2])))
    deepch = deepch[:80 if quick else 1500]
    # ONE ply below as well (the position after a reply the first search has refuted, typically left with a bound): all sampled
    # successors, every second-search depth 1..3
    for (f, m) in mids:
        men = sum(c.isalpha() for c in f.split(' ')[0])
        d1 = rnd.choice([3, 4]) if men > 12 else rnd.choice([3, 4, 5])
        nt, nb = rnd.choice([(4, 256), (2, 64), (8, 1024)])
        deepch.append('search\t%d\t%d\t%d\t-\t1\t%d\t%d\t-\t%s@%d|%s@%d' % (rnd.randrange(1 << 30), rnd.randrange(1 << 50), d1, nt, nb, f, d1, m, rnd.choice([1, 2, 3])))
    # ... and every successor that gives CHECK, from a larger set of roots (a position in check has many pseudo-legal moves
    # that are illegal; an entry that stores an unverified move shows there first)
    croots = list(dict.fromkeys(roots + [f for f in G.corpus() if len(f.split(' ')) == 6][:40] + rnd.sample(sel, min(len(sel), 40 if quick else 400))))
    cg = run_cases(MODEL, ['specgen\t' + f for f in croots], 'C03-chk-a')
    csucc = []
    for f, r in zip(croots, cg):
        for x in (r or '').split(';'):
            if '=' in x:
                csucc.append((f, x.split('=', 1)[1]))
    ck = run_cases(binp, ['attacks\t' + m for (_, m) in csucc], 'C03-chk-b', shards=8)
    checking = [(f, m) for (f, m), r in zip(csucc, ck) if r and r.split(',')[-1] == '1']
    rnd.shuffle(checking)
    for (f, m) in checking[:120 if quick else 3000]:
        men = sum(c.isalpha() for c in f.split(' ')[0])
        d1 = 3 if men > 12 else rnd.choice([3, 4])
        deepch.append('search\t%d\t%d\t%d\t-\t1\t4\t256\t-\t%s@%d|%s@%d' % (rnd.randrange(1 << 30), rnd.randrange(1 << 50), d1, f, d1, m, rnd.choice([1, 2, 3])))
    # and, from three rich roots, many second positions after a depth-5 first search (second search: one iteration)
    for (f, m), r in zip(mids, g2):
        if f not in roots[:3]:
            continue
        succ = [x.split('=', 1)[1] for x in (r or '').split(';') if '=' in x]
        for p2 in rnd.sample(succ, min(len(succ), 14 if quick else 30)):
            deepch.append('search\t%d\t%d\t5\t-\t1\t8\t1024\t-\t%s@5|%s@1' % (rnd.randrange(1 << 30), rnd.randrange(1 << 50), f, p2))
    # the second position of a chain may be terminal (checkmate / stalemate two plies below): no report is then correct, and such
    # chains are left out (terminal roots are the business of C04)
    p2s = sorted(set(c.split('\t')[-1].split('|')[1].rsplit('@', 1)[0] for c in deepch))
    live2 = set(f for f, t in zip(p2s, run_cases(MODEL, ['specterm\t' + f for f in p2s], 'C03-deep-term')) if t == 'none')
    deepch = [c for c in deepch if c.split('\t')[-1].split('|')[1].rsplit('@', 1)[0] in live2]
    deepi = run_cases(binp, deepch, 'C03-deep-impl', shards=16, timeout=1200)
    chk.extra['deeper_first_chains'] = len(deepch)
    allc = cases + mw + ms + deepch; alli = impl + mimpl + msi + deepi
    bad, nlines = check_lines_legal(chk, 'C03', allc, alli)
    chk.streams.append({'name': 'every reported line legal move by move (1..8 workers)', 'against': 'extracted rules specification', 'cases': nlines, 'disagreements': len(bad)})
    noreport = []
    for c, out in zip(allc, alli):
        ps = parse_search(out)
        fens = c.split('\t')[-1].split('|')
        if ps is None or out == 'panic' or len(ps) != len(fens):
            noreport.append((c, out)); continue
        for f, d in zip(fens, ps):
            if not d['best'] or any(len(l) == 0 for _, l in d['best']):
                noreport.append((c, out)); break
    chk.streams.append({'name': 'at least one non-empty report per search of a position with a legal move', 'against': 'the property', 'cases': len(allc), 'disagreements': len(noreport)})
    chk.evaluations += len(mw)
    for c in allc:
        chk.distinct.add(c.split('\t', 2)[2])
    chk.extra['workers_used'] = hist([c.split('\t')[4 if c.startswith('msearch') else 5] for c in allc])
    chk.rule = 'searches (depth 1..3) of live positions through the synchronous hook entry: fresh and reused artifacts (chains of 1..4 searches, including position pairs differing only in castling rights / en-passant state), tables 1x1 .. 4x64 to force displacement, 1 worker (exact model equality), 2..8 real worker threads (lines checked against the rules), and 2..4 workers under forced seeded schedules of their table operations (exact equality with the n-worker model: events, final table content, schedule entries used)'
    chk.samples += [{'case': cases[0], 'code': impl[0]}, {'case': mw[0], 'code': mimpl[0]}]
    for (i, f, ev, line), r in bad[:3]:
        chk.violation('reported line is not legal (%s) in %s: line %s (case %s)' % (r, f, line, allc[i]), {'kind': 'history', 'case': allc[i], 'fen': f, 'line': line, 'verdict': r}, found_input=True)
    for c, out in noreport[:3]:
        chk.violation('no (non-empty) best line reported: %s -> %s' % (c, (out or '')[:200]), {'kind': 'input', 'case': c, 'code': out}, found_input=True)
    if not bad and not noreport:
        for i in bm[:3]:
            chk.violation('correspondence broken (search model) on %s' % cases[i], {'kind': 'correspondence', 'case': cases[i], 'code': impl[i], 'model': model[i]}, found_input=False)
        for i in bsm[:3]:
            chk.violation('correspondence broken (n-worker model under a forced schedule) on %s: code %s model %s' % (ms[i], (msi[i] or '')[:300], (msm[i] or '')[:300]), {'kind': 'correspondence', 'case': ms[i], 'code': msi[i], 'model': msm[i]}, found_input=False)
        if not bsm:
            for i in bs2[:3]:
                chk.violation('the forced schedule does not determine the run (hook or scheduler broken): %s -> %s / %s' % (ms[i], (msi[i] or '')[:200], (msi2[i] or '')[:200]), {'kind': 'correspondence', 'case': ms[i], 'run1': msi[i], 'run2': msi2[i]}, found_input=False)

def check_C04(chk, binp):
    quick = chk.tier == 'quick'
    rnd = random.Random(chk.seed)
    sel, dead = search_positions(chk, 'C04', 100 if quick else 1000)
    F8 = '8/8/8/1P6/8/3p4/p1pP4/k1K5 w - - 0 1'
    cases = []
    for f in sel + dead + [F8]:
        for cancel in rnd.sample(['-', '0', '1', '2', '7', '30', '200', '2000'], 3):
            d = rnd.choice(['1', '2', '3'])
            chain = f if rnd.random() < 0.6 else f + '|' + rnd.choice(sel)       # the returned artifact seeds the next search
            cases.append('search\t%d\t%d\t%s\t%s\t1\t2\t64\t-\t%s' % (rnd.randrange(1 << 30), rnd.randrange(1 << 50), d, cancel, chain))
    # unlimited depth with cancellation by node count (finite trees included)
    for f in [F8] + rnd.sample(sel, 10):
        cases.append('search\t%d\t%d\t-\t%d\t1\t2\t64\t-\t%s' % (rnd.randrange(1 << 30), rnd.randrange(1 << 50), rnd.choice([5, 50, 500]), f))
    impl, model = run_search_cases(chk, binp, 'C04', cases)
    bm = stream(chk, 'single worker: events, node counts after cancellation at node k, terminal roots, chains', cases, impl, model, 'extracted search model (cancellation by node count)')
    panics = [(c, o) for c, o in zip(cases, impl) if o is None or o == 'panic']
    chk.streams.append({'name': 'no panic / no hang for any position, cancellation instant, terminal root', 'against': 'the property (catch_unwind + process exit)', 'cases': len(cases), 'disagreements': len(panics)})
    # terminal roots report no move
    termbad = []
    deadset = set(dead)
    for c, o in zip(cases, impl):
        fens = c.split('\t')[-1].split('|')
        ps = parse_search(o)
        if ps is None or len(ps) != len(fens):
            continue
        for f, d in zip(fens, ps):
            if f in deadset and d['best']:
                termbad.append((c, o))
    chk.streams.append({'name': 'checkmate/stalemate roots end normally and report no move', 'against': 'the property', 'cases': sum(1 for c in cases if c.split('\t')[-1].split('|')[0] in deadset), 'disagreements': len(termbad)})
    # stop bound in node entries: after the flag is set at node k, the run ends within POLL_PERIOD further nodes of the current iteration
    latebad = []
    for c, o in zip(cases, impl):
        a = c.split('\t')
        if a[4] == '-' or o is None or '||' in o:
            continue
        ps = parse_search(o)
        if ps and ps[0]['nodes'] is not None and ps[0]['nodes'] > int(a[4]) + 10000 + 1:
            latebad.append((c, o))
    chk.streams.append({'name': 'after cancellation at node k at most POLL_PERIOD further node entries', 'against': 'C04_stop_bound', 'cases': len(cases), 'disagreements': len(latebad)})
    # CALL LEVEL: one call of the real analyze_recursive with arbitrary (maximal depth, current depth, extensions used, window)
    # and a preloaded table, against Search.analyze - the object the theorems quantify over. Parameters that a search from
    # the root reaches only at great depth (all 16 check extensions used, a node in check one ply above the horizon) are
    # ordinary inputs here. Well-formed inputs only (current <= maximal depth, entries with depth <= maximal depth): no panic.
    CHECKED = ['4k3/8/8/8/8/8/4r3/4K3 w - - 0 1', '4k3/4R3/8/8/8/8/8/4K3 b - - 0 1', 'r3k2r/8/8/8/8/8/4q3/R3K2R w KQkq - 0 1',
               '8/8/8/8/8/5k2/6q1/7K w - - 0 1', 'rnb1kbnr/pppp1ppp/8/4p3/6Pq/5P2/PPPPP2P/RNBQKBNR w KQkq - 1 3']
    npos = CHECKED + rnd.sample(sel, min(len(sel), 30 if quick else 400))
    nodec = []
    for k in range(140 if quick else 3000):
        f = rnd.choice(npos)
        r = rnd.choice([0, 1, 1, 2, 2, 3]); base = rnd.choice([0, 0, 5, 33, 46])
        mdv = base + r + rnd.choice([0, 1]); cdv = mdv - r
        # extensions used: never more than the cap (16) and never more than the current depth (both invariants of every
        # call that a search from the root can make)
        ce = min(rnd.choice([0, 0, 1, 7, 15, 16, 16, 16]), cdv)
        if rnd.random() < 0.6:
            a, b = -11000, 11000
        else:
            a = rnd.randrange(-11000, 10990); b = rnd.randrange(a + 1, 11001)
        pre = []
        for _ in range(rnd.choice([0, 0, 1, 2])):
            mx = rnd.randrange(0, 60); dp = rnd.randrange(0, mx + 1)
            pre.append('%s:%d:0:%d:%d:%d' % (rnd.choice(['@', '@', str(rnd.randrange(1 << 62))]), rnd.choice([0, 1, 2]), dp, mx, rnd.choice([rnd.randrange(-11000, 11001), 0, 10500, -10500])))
        hst = rnd.choice(['-', '-', f, rnd.choice(npos)])
        nt, nb = rnd.choice([(1, 1), (2, 16), (4, 64)])
        nodec.append('node\t%d\t%d\t%d\t%d\t%d\t%d\t%d\t%d\t%d\t%s\t%s\t%s' % (rnd.randrange(1 << 30), rnd.randrange(1 << 50), mdv, cdv, ce, a, b, nt, nb, hst, ';'.join(pre) or '-', f))
    ni = run_cases(binp, nodec, 'C04-node-impl', shards=16, timeout=900)
    nm = run_cases(MODEL, nodec, 'C04-node-model', timeout=1500)
    bnode = stream(chk, 'call level: value, nodes and final table of ONE call with arbitrary depth / extension / window parameters and a preloaded table', nodec, ni, nm, 'extracted Search.analyze')
    npanic = [(c, o) for c, o in zip(nodec, ni) if o is None or o == 'panic']
    chk.streams.append({'name': 'call level: no panic for any well-formed parameters (extension cap reached, in check one ply above the horizon, ...)', 'against': 'the property', 'cases': len(nodec), 'disagreements': len(npanic)})
    chk.evaluations += len(nodec)
    chk.extra['call_level_extensions_used'] = hist([c.split('\t')[5] for c in nodec])
    for c, o in npanic[:2]:
        chk.violation('a call of analyze_recursive with well-formed parameters panicked or did not return: %s -> %s' % (c, o), {'kind': 'input', 'case': c, 'code': o}, found_input=True)
    if not npanic:
        for i in bnode[:2]:
            chk.violation('correspondence broken (call level) on %s: code %s model %s' % (nodec[i], (ni[i] or '')[:200], (nm[i] or '')[:200]), {'kind': 'correspondence', 'case': nodec[i], 'code': ni[i], 'model': nm[i]}, found_input=False)
    # process level: real threads, Stop at seeded instants; join latency (generous ceiling only to catch hangs)
    st = []
    for f in [F8, G.START] + rnd.sample(sel, 6 if quick else 60) + dead[:4]:
        for mode in rnd.sample(['plain', 'drop', 'twice', 'depth3-nostop', 'depth3', 'drop-twice'], 2 if quick else 4):
            st.append('stoptest\t%d\t%d\t%s\t%s' % (rnd.randrange(1 << 30), rnd.choice([0, 1, 20, 150, 400]), mode, f))
    # searches that end BY THEMSELVES without a depth limit (terminal root; forced mate found): the handle must come back
    # although nobody sends Stop
    SELF_ENDING = ['k7/8/1K6/8/8/8/8/7R w - - 0 1', '6k1/5ppp/8/8/8/8/8/3RK3 w - - 0 1', '8/8/8/8/8/k2r4/8/K7 b - - 4 3']
    for f in dead[:4] + SELF_ENDING:
        st.append('stoptest\t%d\t%d\t%s\t%s' % (rnd.randrange(1 << 30), 0, rnd.choice(['nostop', 'drop-nostop']), f))
    sres = run_cases(binp, st, 'C04-stop', shards=4, timeout=900)
    lat = []
    sbad = []
    for c, r in zip(st, sres):
        if r is None or not r.startswith('joined'):
            sbad.append((c, r))
        else:
            ms = int(r.split(' ')[1]); lat.append(ms)
            if ms > 15000 and 'nostop' not in c:
                sbad.append((c, r))
    chk.streams.append({'name': 'Stop via the public entry point at seeded instants (receiver kept/dropped, repeated, after completion; no Stop at all for searches that end by themselves): thread joins', 'against': 'the property (15 s ceiling, only to catch hangs)', 'cases': len(st), 'disagreements': len(sbad)})
    chk.evaluations += len(st)
    chk.extra['join_latency_ms'] = {'max': max(lat) if lat else None, 'median': sorted(lat)[len(lat) // 2] if lat else None}
    for c in cases + st:
        chk.distinct.add(c)
    chk.rule = 'searches of live and terminal positions with cancellation at node 0,1,2,7,30,200,2000 or none, depth 1..3 or unlimited, followed by a second search on the returned artifact; process-level Stop at seeded delays'
    chk.samples += [{'case': cases[0], 'code': impl[0]}, {'case': st[0], 'code': sres[0]}]
    for c, o in panics[:2]:
        chk.violation('search crashed or did not return: %s -> %s' % (c, o), {'kind': 'input', 'case': c, 'code': o}, found_input=True)
    for c, o in termbad[:2]:
        chk.violation('terminal root reported a move: %s -> %s' % (c, o), {'kind': 'input', 'case': c, 'code': o}, found_input=True)
    for c, o in latebad[:2]:
        chk.violation('Stop not obeyed within the poll period (node count): %s -> %s' % (c, o), {'kind': 'input', 'case': c, 'code': o}, found_input=True)
    for c, r in sbad[:2]:
        chk.violation('Stop through the public entry point: %s -> %s' % (c, r), {'kind': 'schedule', 'case': c, 'code': r}, found_input=True)
    if not (panics or termbad or latebad or sbad):
        for i in bm[:3]:
            chk.violation('correspondence broken (search model, cancellation) on %s: code %s model %s' % (cases[i], (impl[i] or '')[:200], (model[i] or '')[:200]), {'kind': 'correspondence', 'case': cases[i], 'code': impl[i], 'model': model[i]}, found_input=False)

# ------------------------------------------------------------------ C06 / C17
def mate_candidates(rnd, n):
    """positions likely to hold short forced mates: lone king near the rim against heavy pieces, side with the pieces to move"""
    out = []
    rim = [s for s in range(64) if s % 8 in (0, 7) or s // 8 in (0, 7)]
    for _ in range(n):
        bk = rnd.choice(rim)
        near = [s for s in range(64) if s != bk and max(abs(s % 8 - bk % 8), abs(s // 8 - bk // 8)) <= 4]
        extra = rnd.choice(['Q', 'R', 'QQ', 'RR', 'QR', 'QB', 'RN', 'QN', 'RB', 'Qp', 'RRp', 'QP'])
        sqs = rnd.sample(near, 1 + len(extra))
        m = {bk: 'k', sqs[0]: 'K'}
        ok = True
        for s, c in zip(sqs[1:], extra):
            if c in 'Pp' and (s < 8 or s >= 56):
                ok = False
            m[s] = c
        if not ok:
            continue
        f = G.fen_from_map(m, 'w')
        out.append(f if rnd.random() < 0.5 else mirror_fen(f))
    return list(dict.fromkeys(out))

KEEP_DIST = {}
KNOWN_MATES = ['8/8/3K2Q1/8/k7/8/8/8 w - - 0 1', '8/7Q/3K4/8/k7/8/8/8 w - - 0 1',      # mate in 5 plies, transposition-rich (corpus)
               'r3k2r/ppp2Npp/1b5n/4p2b/2B1P2q/BQP2P2/P5PP/RN5K w kq - 1 1', '8/8/8/8/8/k2r4/8/K7 b - - 4 3',
               'k7/8/1K6/8/8/8/8/7R w - - 0 1', '6k1/5ppp/8/8/8/8/8/3RK3 w - - 0 1']

def mate_positions(chk, tag, ncand, maxn):
    rnd = random.Random(chk.seed + 3)
    cand = G.filter_legal(mate_candidates(rnd, ncand), tag + '-lp') + KNOWN_MATES
    sm = run_cases(MODEL, ['specmate\t%s\t%d' % (f, maxn) for f in cand], tag + '-solve', timeout=1500)
    wins = []
    nomate = []
    for f, r in zip(cand, sm):
        if r is None:
            continue
        if r == 'none':
            nomate.append(f)
        elif r[0].isdigit():
            n = int(r.split(' ')[0])
            keep = {}
            for it in r.split(' ', 1)[1].split(';'):
                if '=' in it:
                    mv, succ = it.split('=')
                    succ, dist = succ.rsplit('@', 1) if '@' in succ else (succ, '0')
                    keep[tuple(int(x) for x in mv.split('/'))] = succ
                    KEEP_DIST[(f, tuple(int(x) for x in mv.split('/')))] = int(dist)
            wins.append((f, n, keep))
    return wins, nomate

def check_C06(chk, binp):
    quick = chk.tier == 'quick'
    rnd = random.Random(chk.seed)
    MAXN = 5
    wins, nomate = mate_positions(chk, 'C06', 300 if quick else 12000, MAXN)
    if quick:
        rnd.shuffle(wins); wins = wins[:70]
    cases = []; meta = []
    for f, n, keep in wins:
        for d in (n, n + 1, n + 2):
            for workers in ([1] if quick else [1, 1]) + [rnd.choice([2, 3, 4, 8, 16, 32])]:
                if quick and rnd.random() < 0.4 and workers != 1:
                    continue
                cases.append('search\t%d\t%d\t%d\t-\t%d\t%d\t%d\t-\t%s' % (rnd.randrange(1 << 30), rnd.randrange(1 << 50), d, workers, 4, 256, f))
                meta.append((f, n, keep, d, workers))
    # positions without a forced mate within MAXN plies: soundness (a mate claim must be true)
    for f in rnd.sample(nomate, min(len(nomate), 120 if quick else 3000)):
        d = rnd.choice([1, 2, 3])
        workers = rnd.choice([1, 1, 2, 4])
        cases.append('search\t%d\t%d\t%d\t-\t%d\t%d\t%d\t-\t%s' % (rnd.randrange(1 << 30), rnd.randrange(1 << 50), d, workers, 4, 256, f))
        meta.append((f, None, {}, d, workers))
    impl = run_cases(binp, cases, 'C06-impl', shards=8)
    # FORCED SCHEDULES on mate positions (2..4 workers, yield-point hook): exact equality with the n-worker model of the C06_conc
    # theorems, and the same solver checks as every other run (completeness, first move, soundness)
    fs = []; fsmeta = []
    for f, n, keep in [w for w in wins if w[1] <= 3][:14 if quick else 200]:
        d = rnd.choice([n, n + 1]); nw = rnd.choice([2, 3, 4]); L = rnd.choice([0, 10, 100, 1000])
        sched = ','.join(str(rnd.randrange(1 << 20)) for _ in range(L)) or '-'
        fs.append('msearch\t%d\t%d\t%d\t%d\t4\t256\t-\t%s\t%s' % (rnd.randrange(1 << 30), rnd.randrange(1 << 50), d, nw, sched, f)); fsmeta.append((f, n, keep, d, nw))
    for f in rnd.sample(nomate, min(len(nomate), 10 if quick else 200)):
        d = rnd.choice([1, 2]); nw = rnd.choice([2, 3, 4]); L = rnd.choice([0, 10, 100, 1000])
        sched = ','.join(str(rnd.randrange(1 << 20)) for _ in range(L)) or '-'
        fs.append('msearch\t%d\t%d\t%d\t%d\t4\t256\t-\t%s\t%s' % (rnd.randrange(1 << 30), rnd.randrange(1 << 50), d, nw, sched, f)); fsmeta.append((f, None, {}, d, nw))
    fsi = run_cases(binp, fs, 'C06-fs-impl', shards=8, timeout=900)
    fsm = run_cases(MODEL, fs, 'C06-fs-model', timeout=1500)
    bfs = stream(chk, 'forced schedules (2..4 workers) on mate / no-mate positions: events + final table + schedule entries used', fs, fsi, fsm, 'extracted n-worker model (Conc.analyze_iterativeM) under the same schedule')
    nfs0 = len(cases)
    cases += fs; impl += fsi; meta += fsmeta
    # REUSED MEMORY: P has a forced mate in 5 plies; P is searched (too shallow to see it), then the position P2 reached by a
    # mate-keeping move and any reply (forced mate in 3 plies) is searched with the SAME artifact, in which P2 was an inner node
    # (entries written below a check carry extended depths). Whenever the second search claims a mate its first move must keep it.
    deep = [(f, n, keep) for f, n, keep in wins if n == 5][:40 if quick else 400]
    succs = [(f, mv, keep[mv]) for f, n, keep in deep for mv in list(keep)[:3]]
    sg = run_cases(MODEL, ['specgen\t' + sc for (_, _, sc) in succs], 'C06-chain-gen', timeout=900)
    p2s = []
    for (f, mv, sc), r in zip(succs, sg):
        reps = [x.split('=', 1)[1] for x in (r or '').split(';') if '=' in x]
        for p2 in rnd.sample(reps, min(len(reps), 3)):
            p2s.append((f, p2))
    sm2 = run_cases(MODEL, ['specmate\t%s\t5' % p2 for (_, p2) in p2s], 'C06-chain-solve', timeout=1500)
    chains = []; chmeta = []
    for (f, p2), r in zip(p2s, sm2):
        if not r or not r[0].isdigit():
            continue
        n2 = int(r.split(' ')[0])
        keep2 = set()
        for it in r.split(' ', 1)[1].split(';'):
            if '=' in it:
                keep2.add(tuple(int(x) for x in it.split('=')[0].split('/')))
        for d in (3, 4):
            nt, nb = rnd.choice([(4, 256), (2, 64), (1, 16)])
            chains.append('search\t%d\t%d\t%d\t-\t1\t%d\t%d\t-\t%s|%s' % (rnd.randrange(1 << 30), rnd.randrange(1 << 50), d, nt, nb, f, p2)); chmeta.append((p2, n2, keep2, d))
    chains = chains[:700 if quick else 8000]; chmeta = chmeta[:len(chains)]
    chi = run_cases(binp, chains, 'C06-chain-impl', shards=16)
    msel = [i for i, m in enumerate(chmeta) if m[3] <= 3][:26 if quick else 300]      # the extracted model is slow
    chm = run_cases(MODEL, [chains[i] for i in msel], 'C06-chain-model', timeout=1500)
    bch = stream(chk, 'reused memory: P (mate in 5) then P2 (mate in <= 3 after a mate-keeping move and a reply) with the same artifact: events + node trace', [chains[i] for i in msel], [chi[i] for i in msel], chm, 'extracted search model')
    chsus = []
    for c, m, o in zip(chains, chmeta, chi):
        ps = parse_search(o)
        if not ps or len(ps) != 2 or not ps[1]['best']:
            continue
        ev, line = ps[1]['best'][-1]
        if ev >= 10000 and line and raw_coords(line[0]) not in m[2]:
            chsus.append((c, m[0], line[0], o))
    chbad = []
    if chsus:
        kr3 = run_cases(MODEL, ['speckeeps\t%s\t%s\t8' % (p2, mv) for (c, p2, mv, o) in chsus], 'C06-chain-keeps', timeout=1500)
        for (c, p2, mv, o), r in zip(chsus, kr3):
            if r == 'illegal':
                chbad.append((c, 'reused memory: mate claimed with an illegal first move', o))
            elif r != 'keeps':
                chbad.append((c, 'reused memory: a winning terminal evaluation is reported for %s but the first move %s does not keep a forced mate within 8 plies (the shortest mate is %s plies)' % (p2, mv, r), o))
    chk.streams.append({'name': 'reused memory: whenever the second search of a chain claims a mate, its first move keeps the mate', 'against': 'forced-mate solver over the extracted rules', 'cases': len(chains), 'disagreements': len(chbad)})
    chk.evaluations += len(chains)
    for c, msg, o in chbad[:3]:
        chk.violation('%s: %s -> %s' % (msg, c, (o or '')[:240]), {'kind': 'history', 'case': c, 'what': msg, 'code': o}, found_input=True)
    single = [i for i, m in enumerate(meta) if m[4] == 1 and m[3] <= (3 if quick else 4)]      # the extracted model is slow on deep searches
    model = run_cases(MODEL, [cases[i] for i in single], 'C06-model')
    bm = [single[j] for j in stream(chk, 'single worker: events + node trace on mate positions', [cases[i] for i in single], [impl[i] for i in single], model, 'extracted search model')]
    incomplete = []; wrongmove = []; claims = []; mw_suspects = []
    for i, (m, out) in enumerate(zip(meta, impl)):
        f, n, keep, d, workers = m
        ps = parse_search(out)
        if not ps or not ps[0]['best']:
            if n is not None:
                incomplete.append((i, 'no report'))
            continue
        ev, line = ps[0]['best'][-1]
        if ev >= 10000:
            claims.append((i, f, line[0] if line else None, d))
        if n is not None:
            if ev < 10000:
                incomplete.append((i, 'forced mate in %d plies, depth %d, reported %d' % (n, d, ev)))
            else:
                o, t, p = raw_coords(line[0])
                if (o, t, p) not in keep:
                    # not among the moves that mate within the shortest-mate bound: the engine may legitimately report a LONGER
                    # mate (mate scores stored in the table carry the ply at which they were found); decide with a deeper bound
                    mw_suspects.append((i, f, line[0]))
    # several workers may report a LONGER mate than the shortest one: their first move is checked with a deeper solver bound;
    # a move that loses the mate is a violation, one the bound cannot decide is counted
    if mw_suspects:
        kr2 = run_cases(MODEL, ['speckeeps\t%s\t%s\t8' % (f, mv) for (i, f, mv) in mw_suspects], 'C06-mwkeeps', timeout=1500)
        def coord(raw):
            o, t, p = raw_coords(raw)
            return 'abcdefgh'[o % 8] + str(o // 8 + 1) + 'abcdefgh'[t % 8] + str(t // 8 + 1) + {0: '', 2: 'n', 3: 'b', 4: 'r', 5: 'q'}[p]
        after = run_cases(MODEL, ['specplay\t%s\t%s' % (f, coord(mv)) for (i, f, mv) in mw_suspects], 'C06-after')
        term = run_cases(MODEL, ['specterm\t' + (a or 'x') for a in after], 'C06-afterterm')
        und = 0
        for (i, f, mv), r, tm in zip(mw_suspects, kr2, term):
            if r == 'illegal':
                wrongmove.append((i, 'reported first move is illegal'))
            elif tm == 'stale':
                wrongmove.append((i, 'reported first move stalemates the opponent: it does not keep the forced mate'))
            elif r != 'keeps':
                und += 1
        chk.extra['multi_worker_first_moves_beyond_solver_bound'] = und
    chk.extra['multi_worker_first_moves_checked_deeper'] = len(mw_suspects)
    # soundness: (a) on positions with a solver-known mate the first move is checked above; (b) claims on other positions are
    # checked with a 5-ply solver where it can decide, otherwise counted as unverified; (c) exact: on material where no mate
    # exists (K v K, K+B v K, K+N v K) and for a lone king to move, ANY terminal evaluation is a false claim
    oth = [(i, f, mv, d) for (i, f, mv, d) in claims if mv and meta[i][1] is None]
    q = ['speckeeps\t%s\t%s\t%d' % (f, mv, 4) for (i, f, mv, d) in oth]
    kr = run_cases(MODEL, q, 'C06-keeps', timeout=900)
    unsound = []; unverified = 0
    for (i, f, mv, d), r in zip(oth, kr):
        if r == 'illegal':
            unsound.append((i, 'claimed mate with an illegal first move'))
        elif r != 'keeps':
            unverified += 1
    chk.extra['mate_claims_beyond_solver_bound'] = unverified
    nm = []
    for extra in ['', 'B', 'N', 'b', 'n']:
        nm += G.small_family(rnd, extra, 40 if quick else 1500)
    nm = G.filter_legal(list(dict.fromkeys(nm)), 'C06-nm')
    lone = [f for (f, n, keep) in wins][:40]      # the defender's replies: lone king to move after a null-ish flip is not legal in general, so use fresh ones
    nmc = ['search\t%d\t%d\t%d\t-\t%d\t2\t64\t-\t%s' % (rnd.randrange(1 << 30), rnd.randrange(1 << 50), rnd.choice([1, 2, 3]), rnd.choice([1, 1, 2, 4]), f) for f in nm]
    nmi = run_cases(binp, nmc, 'C06-nomate', shards=8)
    for c, out in zip(nmc, nmi):
        ps = parse_search(out)
        if ps and any(abs(ev) >= 10000 for ev, _ in ps[0]['best']):
            unsound.append((len(cases), 'terminal evaluation claimed on material that cannot mate'))
            cases.append(c); impl.append(out); meta.append((c.split('\t')[-1], None, {}, 0, 0))
    # VOLUME: thousands of sparse random positions searched for one or two iterations (real code only, fresh memory, one worker):
    # a claimed mate carries its distance in the score (11000 - 100 * plies); the solver refutes it when there is no forced
    # mate within that distance plus two plies (a false claim produced at the horizon - quiescence - shows here)
    sparse = []
    for _ in range(60000 if quick else 400000):
        nmen = rnd.randrange(2, 9)
        sparse += G.small_family(rnd, ''.join(rnd.choice('PNBRQpnbrqPpRr') for _ in range(nmen)), 1)
    sparse = G.filter_legal(list(dict.fromkeys(sparse)), 'C06-sparse')
    spc = ['search\t%d\t%d\t%d\t-\t1\t2\t64\t-\t%s' % (rnd.randrange(1 << 30), rnd.randrange(1 << 50), rnd.choice([1, 1, 2]), f) for f in sparse]
    spi = run_cases(binp, spc, 'C06-sparse-impl', shards=16, timeout=1200)
    spclaims = []
    for c, f, o in zip(spc, sparse, spi):
        ps = parse_search(o)
        if ps and ps[0]['best']:
            ev, line = ps[0]['best'][-1]
            if ev >= 10000:
                spclaims.append((c, f, ev, (11000 - ev) // 100, o))
    # (refuting a claim is expensive for the solver: the short claims first, a bounded number of them, two plies of slack)
    spq = sorted([x for x in spclaims if x[3] <= 3], key=lambda x: x[3])[:1200 if quick else 8000]
    spr = run_cases(MODEL, ['specwin\t%s\t%d' % (f, p + 2) for (c, f, ev, p, o) in spq], 'C06-sparse-solve', timeout=900)
    spbad = [(c, f, ev, p, o) for (c, f, ev, p, o), r in zip(spq, spr) if r == 'none']
    chk.streams.append({'name': 'volume: sparse random positions at depth 1..2, mate claims checked by the solver at the claimed distance + 2 plies', 'against': 'forced-mate solver over the extracted rules', 'cases': len(spc), 'disagreements': len(spbad)})
    chk.evaluations += len(spc)
    chk.extra['sparse_mate_claims'] = len(spclaims)
    for c, f, ev, p, o in spbad[:3]:
        unsound.append((len(cases), 'mate in %d plies claimed (score %d) but the side to move has no forced mate within %d plies' % (p, ev, p + 2)))
        cases.append(c); impl.append(o); meta.append((f, None, {}, 0, 1))
    chk.streams.append({'name': 'soundness (exact): no terminal evaluation on K v K, K+minor v K', 'against': 'insufficient material (no checkmate position exists)', 'cases': len(nmc), 'disagreements': sum(1 for u in unsound if 'cannot mate' in u[1])})
    # the memoised solver of the driver against the extracted GameValue.win (the Coq definition of a forced mate), 3 plies
    gsel = [f for f, n, k in wins[:25]] + nomate[:25]
    gv = run_cases(MODEL, ['gvwin\t%s\t3' % f for f in gsel], 'C06-gv')
    gbad = [f for f, r in zip(gsel, gv) if r is None or len(set(r.split(' '))) != 1]
    chk.streams.append({'name': 'forced-mate solver = extracted GameValue.win (3 plies)', 'against': 'coq/spec/GameValue.v', 'cases': len(gsel), 'disagreements': len(gbad)})
    for f in gbad[:2]:
        chk.violation('the driver solver disagrees with GameValue.win on %s' % f, {'kind': 'correspondence', 'fen': f}, found_input=False)
    chk.streams.append({'name': 'completeness: forced mate in n plies found at depth n..n+2 (1..32 workers)', 'against': 'forced-mate solver over the extracted rules', 'cases': sum(1 for m in meta if m[1] is not None), 'disagreements': len(incomplete)})
    chk.streams.append({'name': 'reported first move keeps the forced mate (decided by the solver within 8 plies; stalemating / illegal first moves are violations)', 'against': 'forced-mate solver over the extracted rules', 'cases': sum(1 for m in meta if m[1] is not None), 'disagreements': len(wrongmove)})
    chk.streams.append({'name': 'soundness: every winning terminal evaluation is a real forced mate kept by the first move', 'against': 'forced-mate solver over the extracted rules', 'cases': len(q), 'disagreements': len(unsound)})
    chk.evaluations += len(cases)
    chk.extra['mate_distance_histogram'] = hist([m[1] for m in meta if m[1] is not None])
    chk.extra['workers_used'] = hist([m[4] for m in meta])
    chk.extra['mate_claims_checked'] = len(q)
    for c in cases:
        chk.distinct.add(c.split('\t', 2)[2])
    chk.rule = 'positions with a forced mate in 1, 3 or 5 plies found by the solver among seeded lone-king families (+ known test positions), searched at depth n..n+2 with 1 and 2..32 workers; positions without a short forced mate for soundness'
    chk.samples += [{'case': cases[0], 'mate_in_plies': meta[0][1], 'code': impl[0]}]
    for i, msg in (incomplete + wrongmove + unsound)[:4]:
        chk.violation('%s: %s -> %s' % (msg, cases[i], (impl[i] or '')[:200]), {'kind': 'input', 'case': cases[i], 'what': msg, 'code': impl[i]}, found_input=True)
    if not (incomplete or wrongmove or unsound) and bm:
        # violation search: the correspondence is broken; look for a concrete failing input among deeper mates x more seeds
        # (real code against the solver only, which is cheap)
        deep = [(f, n, keep) for f, n, keep in wins if n >= 3]
        vs = []; vmeta = []
        for f, n, keep in deep:
            for d in (n, n + 1, n + 2):
                for sd in range(8):
                    vs.append('search\t%d\t%d\t%d\t-\t1\t%d\t%d\t-\t%s' % (1000 + sd, 7000 + sd, d, 4, 256, f)); vmeta.append((f, n, keep, d))
        vi = run_cases(binp, vs, 'C06-vsearch', shards=8)
        found = []
        for c, m, out in zip(vs, vmeta, vi):
            ps = parse_search(out)
            if not ps or not ps[0]['best']:
                found.append((c, 'no report', out)); continue
            ev, line = ps[0]['best'][-1]
            if ev < 10000:
                found.append((c, 'forced mate in %d plies, depth %d, reported %d' % (m[1], m[3], ev), out))
            elif raw_coords(line[0]) not in m[2]:
                found.append((c, 'first move does not keep the forced mate', out))
        chk.streams.append({'name': 'violation search after a broken correspondence: deeper mates x 8 seeds x depth n..n+2', 'against': 'forced-mate solver over the extracted rules', 'cases': len(vs), 'disagreements': len(found)})
        for c, msg, out in found[:3]:
            chk.violation('%s: %s -> %s' % (msg, c, (out or '')[:200]), {'kind': 'input', 'case': c, 'what': msg, 'code': out}, found_input=True)
        for i in bm[:3]:
            chk.violation('correspondence broken (search model) on %s' % cases[i], {'kind': 'correspondence', 'case': cases[i]}, found_input=False)
    if not (incomplete or wrongmove or unsound or chbad) and bch:
        for j in bch[:2]:
            chk.violation('correspondence broken (search model, reused memory chain)', {'kind': 'correspondence', 'stream': 'C06-chain'}, found_input=False)
    if not (incomplete or wrongmove or unsound) and bfs:
        for j in bfs[:3]:
            chk.violation('correspondence broken (n-worker model under a forced schedule) on %s: code %s model %s' % (fs[j], (fsi[j] or '')[:300], (fsm[j] or '')[:300]), {'kind': 'correspondence', 'case': fs[j], 'code': fsi[j], 'model': fsm[j]}, found_input=False)

def check_C17(chk, binp):
    quick = chk.tier == 'quick'
    rnd = random.Random(chk.seed)
    MAXN = 3 if quick else 5
    wins, _ = mate_positions(chk, 'C17', 600 if quick else 12000, MAXN)
    cases = []; meta = []
    for f, n, keep in wins:
        # record the successor of a mate-in-1 move (a checkmate position, so it cannot recur elsewhere in a line) when another
        # first move also forces mate; the required depth is the distance of the shortest such alternative
        m1 = [mv for mv in keep if KEEP_DIST.get((f, mv)) == 1]
        for mv in rnd.sample(m1, min(len(m1), 2 if quick else 4)):
            alts = [KEEP_DIST[(f, a)] for a in keep if a != mv and KEEP_DIST.get((f, a), 0) > 0]
            if not alts:
                continue
            nalt = min(alts)
            succ = keep[mv]
            for d in (nalt, nalt + 1, nalt + 2):
                for workers in [1] + ([rnd.choice([2, 4, 8])] if rnd.random() < 0.3 else []):
                    nt, nb = rnd.choice([(4, 256), (4, 256), (2, 8), (1, 4)])
                    cases.append('search\t%d\t%d\t%d\t-\t%d\t%d\t%d\t%s\t%s' % (rnd.randrange(1 << 30), rnd.randrange(1 << 50), d, workers, nt, nb, succ, f))
                    meta.append((f, nalt, keep, mv, succ, d, workers))
    cases = cases[:400 if quick else 20000]; meta = meta[:len(cases)]
    # the recorded position was really SEARCHED before with the same memory (so it owns deep table entries): chain Q | P where Q is the
    # non-terminal successor of a mate-keeping first move of P and another first move also mates
    chains = []; cmeta = []
    for f, n, keep in wins:
        for mv, succ in keep.items():
            dm = KEEP_DIST.get((f, mv), 0)
            if dm < 3:
                continue              # successor must be non-terminal
            alts = [KEEP_DIST[(f, a)] for a in keep if a != mv and KEEP_DIST.get((f, a), 0) > 0]
            if not alts:
                continue
            nalt = min(alts)
            for d in (max(nalt, dm), max(nalt, dm) + 1):
                # table geometry varies: with few slots the first search leaves the table (nearly) full, which must not make
                # the second search forget what the game has recorded
                nt, nb = rnd.choice([(4, 256), (4, 256), (1, 1), (1, 4), (2, 8), (1, 16)])
                chains.append('search\t%d\t%d\t%d\t-\t1\t%d\t%d\t-\t%s|%s' % (rnd.randrange(1 << 30), rnd.randrange(1 << 50), d, nt, nb, succ, f))
                cmeta.append((f, nalt, keep, mv, succ, d, 1))
    chains = chains[:120 if quick else 4000]; cmeta = cmeta[:len(chains)]
    ci = run_cases(binp, chains, 'C17-chain-impl', shards=8)
    cm = run_cases(MODEL, chains, 'C17-chain-model')
    cbm = stream(chk, 'chains: the recorded position was searched before with the same memory, then re-entered', chains, ci, cm, 'extracted search model')
    cbad = []
    for c, m, out in zip(chains, cmeta, ci):
        ps = parse_search(out)
        if not ps or len(ps) != 2 or not ps[1]['best']:
            cbad.append((c, 'no report', out)); continue
        ev, line = ps[1]['best'][-1]
        if ev < 10000:
            cbad.append((c, 'another first move forces mate in %d plies (depth %d) but no winning terminal evaluation (%d)' % (m[1], m[5], ev), out))
        elif raw_coords(line[0]) == m[3]:
            cbad.append((c, 'chose the move that re-enters a position searched earlier in the game', out))
    chk.streams.append({'name': 'chains: re-entering a previously searched position is a draw; another mating move is chosen', 'against': 'forced-mate solver over the extracted rules', 'cases': len(chains), 'disagreements': len(cbad)})
    chk.evaluations += len(chains)
    impl = run_cases(binp, cases, 'C17-impl', shards=8)
    single = [i for i, m in enumerate(meta) if m[6] == 1]
    model = run_cases(MODEL, [cases[i] for i in single], 'C17-model')
    bm = [single[j] for j in stream(chk, 'single worker: events + node trace with a recorded successor in the history', [cases[i] for i in single], [impl[i] for i in single], model, 'extracted search model (history draws)')]
    bad = []
    for i, (m, out) in enumerate(zip(meta, impl)):
        f, n, keep, mv, succ, d, workers = m
        ps = parse_search(out)
        # is there another first move that still mates while avoiding the recorded position?  (mate in 1 alternatives always do)
        if not ps or not ps[0]['best']:
            bad.append((i, 'no report')); continue
        ev, line = ps[0]['best'][-1]
        if ev < 10000:
            bad.append((i, 'another first move forces mate in %d plies (depth %d) but no winning terminal evaluation (%d)' % (n, d, ev)))
        elif workers == 1 and raw_coords(line[0]) == mv:
            bad.append((i, 'chose the move leading into the recorded position'))
    chk.streams.append({'name': 'recorded successor is valued as a draw: mate still reported via another first move, repeating move not chosen', 'against': 'forced-mate solver over the extracted rules', 'cases': len(cases), 'disagreements': len(bad)})
    chk.evaluations += len(cases)
    for c in cases:
        chk.distinct.add(c.split('\t', 2)[2])
    chk.extra['workers_used'] = hist([m[6] for m in meta])
    chk.rule = 'solver-decided positions with at least two mate-preserving first moves; each chosen successor recorded in the artifact history through the hook; depths n..n+2; 1 worker (exact model equality) and some 2..8 worker runs; chains in which the recorded position was searched before with the same memory; tables from 1x1 (8 slots, full after the first search) to 4x256'
    if cases:
        chk.samples += [{'case': cases[0], 'code': impl[0]}]
    for i, msg in bad[:4]:
        chk.violation('%s: %s -> %s' % (msg, cases[i], (impl[i] or '')[:200]), {'kind': 'history', 'case': cases[i], 'what': msg, 'code': impl[i]}, found_input=True)
    for c, msg, out in cbad[:3]:
        chk.violation('%s: %s -> %s' % (msg, c, (out or '')[:200]), {'kind': 'history', 'case': c, 'what': msg, 'code': out}, found_input=True)
    if not bad and not cbad:
        for i in bm[:3]:
            chk.violation('correspondence broken (search model, history) on %s' % cases[i], {'kind': 'correspondence', 'case': cases[i]}, found_input=False)
        for i in cbm[:3]:
            chk.violation('correspondence broken (search model, chain) on %s' % chains[i], {'kind': 'correspondence', 'case': chains[i], 'code': ci[i], 'model': cm[i]}, found_input=False)

# ------------------------------------------------------------------ UCI sessions (C07, C14, C18)
import uci as U

import threading
def spec_one(cmdline, tag='spec1'):
    # sessions run in threads: every thread gets its own scratch directory
    return run_cases(MODEL, [cmdline], '%s-%d' % (tag, threading.get_ident()), shards=1)[0]

def coord_of(mvtext):
    return mvtext

def legal_coord(fen, mv):
    """is the coordinate move legal in fen under the rules?"""
    r = spec_one('specplay\t%s\t%s' % (fen, mv), 'uci-legal')
    return r is not None and not r.startswith('illegal') and r != 'badfen'

def gen_games(rnd, n, tag):
    roots = [G.START] * 3 + G.corpus()[:20]
    lines = ['specgame\t%d\t%d\t%s' % (rnd.randrange(1 << 30), rnd.randrange(2, 30), rnd.choice(roots)) for _ in range(n)]
    res = run_cases(MODEL, lines, tag)
    games = []
    for l, r in zip(lines, res):
        if not r or r == 'badfen':
            continue
        root = l.split('\t')[3]
        items = [x.split('=') for x in r.split(';') if '=' in x]
        games.append((root, [m for m, _ in items], [f for _, f in items]))
    return games

def run_uci_session(binp, rnd, game, has_moves, malformed=None):
    """one seeded session; returns (steps, problems). The monitor keeps the position the rules define."""
    problems = []
    S = U.Session(binp)
    cur = G.START
    gos = []          # positions of the `go`s on live positions, in order
    best = []         # bestmove tokens seen, in order
    def absorb(step, after_collect):
        for l in step['out']:
            if l.startswith('bestmove'):
                best.append(l.split(' ')[1] if len(l.split(' ')) > 1 else '')
        if len(best) > len(gos):
            problems.append('a bestmove was printed that no go asked for (%d bestmoves, %d gos) after %r' % (len(best), len(gos), step['cmd']))
        if after_collect and len(best) != len(gos):
            problems.append('after %r: %d go commands on positions with a legal move but %d bestmove lines' % (step['cmd'], len(gos), len(best)))
        if step['synced'] is False:
            problems.append('no readyok after %r (process %s)' % (step['cmd'], 'alive' if S.alive() else 'dead'))
    st = S.send('uci')
    if not any(l.startswith('id name') for l in st['out']) or not any(l.startswith('id author') for l in st['out']) or 'uciok' not in st['out']:
        problems.append('uci not answered with id lines and uciok: %r' % st['out'])
    root, moves, fens = game
    nseg = rnd.randrange(1, 5)
    for seg in range(nseg):
        k = rnd.randrange(0, len(moves) + 1)
        if root == G.START and rnd.random() < 0.6:
            cmd = 'position startpos' + (' moves ' + ' '.join(moves[:k]) if k else '')
        else:
            cmd = 'position fen ' + root + (' moves ' + ' '.join(moves[:k]) if k else '')
        expect = fens[k - 1] if k else root
        st = S.send(cmd, settle=rnd.choice([0, 0, 0.005, 0.05])); absorb(st, True)
        cur = expect
        st = S.send('.state'); absorb(st, False)
        got = U.state_fen(st)
        if got != cur:
            problems.append('after %r the engine position is %r, the rules give %r' % (cmd, got, cur))
        if malformed and rnd.random() < 0.7:
            for bad in rnd.sample(malformed, rnd.randrange(1, 4)):
                st = S.send(bad); absorb(st, False)
                collects = bad.split(' ')[0] in ('position', 'stop', 'go', 'ucinewgame') if bad.strip() else False
            st = S.send('.state'); absorb(st, False)
            got2 = U.state_fen(st)
            # a malformed position command may legitimately set the position part before failing on the moves; re-pin it
            st = S.send(cmd); absorb(st, True)
        live = has_moves(cur)
        for _ in range(rnd.randrange(0, 3)):
            kind = rnd.random()
            if kind < 0.45:
                g = 'go depth %d' % rnd.choice([1, 1, 2, 2, 3])
            elif kind < 0.9:
                g = 'go movetime %d' % rnd.choice([0, 1, 30, 120, 300])
            else:
                g = 'go depth 2 movetime 200'
            if not live:
                break
            gos.append(cur)
            st = S.send(g, settle=rnd.choice([0, 0, 0.01, 0.08, 0.25])); absorb(st, False)
            if rnd.random() < 0.35:
                st = S.send('isready'); absorb(st, False)
            nxt = rnd.random()
            if nxt < 0.35:
                st = S.send('stop'); absorb(st, True)
            elif nxt < 0.55:
                # let it finish by itself (depth limit / movetime / book)
                if len(best) < len(gos):
                    S.wait_output(lambda l: l.startswith('bestmove'), 90.0)
                    for l in S.steps[-1]['out']:
                        if l.startswith('bestmove'):
                            best.append(l.split(' ')[1] if len(l.split(' ')) > 1 else '')
                if len(best) != len(gos):
                    problems.append('no bestmove within 90 s after %r on %s' % (g, cur))
            elif nxt < 0.65:
                st = S.send('ucinewgame'); absorb(st, True)
            # else: the next go/position collects it
    rc = S.close(quit_cmd=rnd.random() < 0.7)
    for l in S.steps[-1]['out']:
        if l.startswith('bestmove'):
            best.append(l.split(' ')[1] if len(l.split(' ')) > 1 else '')
    if rc != 0:
        problems.append('exit status %r' % rc)
    if len(best) != len(gos):
        problems.append('at the end: %d go commands on positions with a legal move, %d bestmove lines' % (len(gos), len(best)))
    for f, mv in zip(gos, best):
        if not mv or not legal_coord(f, mv):
            problems.append('bestmove %s is not legal in %s' % (mv, f))
    if not malformed or True:
        problems += compare_with_uci_model(binp, S.steps)
    return S.steps, problems, len(gos)

INFO_MAP = {'info string unparsable go commands': 'info1', 'info string invalid fen position': 'info2', 'info string unknown position command': 'info3',
            'info string invalid move format': 'info4', 'info string invalid move': 'info5', 'info string unknown command': 'info6'}

def compare_with_uci_model(binp, steps):
    """replay the commands of a real session through the extracted Uci.v state machine and compare what is determined:
    fixed info strings, protocol answers, position dumps, book-or-search decision, and the bestmove count at collection points"""
    main = [st for st in steps if not st['cmd'].startswith('(')]
    lines = [st['cmd'] for st in main]
    def model(books):
        arg = '|'.join(books) if books else '-'
        r = spec_one('ucimodel\t%s\t%s' % (arg, G.esc(chr(0x1f).join(lines))), 'uci-model')
        return [x.split('~') if x else [] for x in (r or '').split(' || ')]
    m1 = model([])
    gofens = sorted(set(t.split(':', 1)[1].rsplit(':', 1)[0] for stp in m1 for t in stp if t.startswith('start:')))
    inbook = []
    if gofens:
        br = run_cases(binp, ['book\t' + f for f in gofens], 'uci-book-%d' % threading.get_ident(), shards=1)
        inbook = [f for f, r in zip(gofens, br) if r not in (None, 'none', 'badfen')]
    m = model(inbook) if inbook else m1
    problems = []
    if len(m) < len(main):
        problems.append('model produced %d steps for %d commands' % (len(m), len(main)))
        return problems
    real_best = 0; model_best = 0; pending_live = 0
    for st, mo in zip(main, m):
        real_info = sorted(INFO_MAP[l] for l in st['out'] if l in INFO_MAP)
        model_info = sorted(t for t in mo if t.startswith('info'))
        if real_info != model_info:
            problems.append('%r: engine printed %s, session model expects %s' % (st['cmd'], real_info, model_info))
        if any(t.startswith('state:') for t in mo):
            want = [t.split(':', 1)[1] for t in mo if t.startswith('state:')][0]
            got = U.state_fen(st)
            if got != want:
                problems.append('%r: engine position %r, session model %r' % (st['cmd'], got, want))
        for tok, line in (('uciok', 'uciok'), ('readyok', None)):
            if tok in mo and line and line not in st['out']:
                problems.append('%r: missing %s' % (st['cmd'], line))
        real_book = any(l.startswith('info string book move') for l in st['out'])
        model_book = any(t.startswith('book:') for t in mo)
        if real_book != model_book:
            problems.append('%r: book move %s by the engine, %s by the session model' % (st['cmd'], real_book, model_book))
    return problems

def make_has_moves():
    cache = {}
    def has_moves(fen):
        if fen not in cache:
            cache[fen] = spec_one('specterm\t' + fen, 'uci-term') == 'none'
        return cache[fen]
    return has_moves

MALFORMED_LINES = ['position startpos moves e2', 'position startpos moves e2e', 'position startpos moves e2e4 e7', 'position startpos moves é2e4',
                   'position startpos moves eée4', 'position startpos moves e2e4é', 'position startpos moves e2e4x', 'position startpos moves e2e4qq',
                   'position fen', 'position fen 8/8 w - - 0 1', 'position fen ' + '8' * 32 + '/8/8/8/8/8/8/8 w - - 0 1', 'position', 'position foo',
                   'position startpos moves', 'position startpos moves a1a1', 'position startpos moves e2e5', 'go depth', 'go depth x', 'go depth -1',
                   'go movetime', 'go movetime abc', 'go movetime 99999999999999999999', 'go depth 18446744073709551616 movetime 0', 'go wtime 1000', '', '   ',
                   'xyzzy', 'stop stop', 'isready extra', ' ', 'position fen rnbqkbnr/pppppppp/8/8/8/8/PPPPPPPP/RNBQKBNR w KQkq - 0 18446744073709551616',
                   'position startpos moves e7e8q', 'position startpos moves 0000', 'position startpos moves e2e4 moves e7e5', 'ucinewgame now', 'go infinite']

def uci_sessions(chk, binp, n, with_malformed):
    rnd = random.Random(chk.seed + (7 if with_malformed else 0))
    games = gen_games(rnd, n, chk.prop + '-games')
    has_moves = make_has_moves()
    results = []
    import concurrent.futures as cf
    def one(i):
        r = random.Random(chk.seed * 1000 + i)
        bad = None
        if with_malformed:
            bad = [l for l in MALFORMED_LINES if not l.startswith('go ') or 'depth 1844' not in l]
            bad = [l for l in bad if not (l.startswith('go') and ('infinite' in l or 'wtime' in l or l.strip() in ('go depth', 'go movetime', 'go depth x', 'go depth -1', 'go movetime abc', 'go movetime 99999999999999999999')))]
        return run_uci_session(binp, r, games[i % len(games)], has_moves, bad)
    with cf.ThreadPoolExecutor(max_workers=4) as ex:
        results = list(ex.map(one, range(n)))
    return results

def check_C07(chk, binp):
    quick = chk.tier == 'quick'
    res = uci_sessions(chk, binp, 24 if quick else 400, False)
    nb = 0; ngo = 0
    for i, (steps, problems, g) in enumerate(res):
        ngo += g
        chk.distinct.add(i)
        if problems:
            nb += 1
            chk.violation('UCI session %d: %s' % (i, problems[0]), {'kind': 'history', 'problems': problems[:5], 'transcript': [(s['cmd'], s['out'][-6:]) for s in steps][:80]}, found_input=True)
    chk.streams.append({'name': 'seeded well-formed UCI sessions monitored against the rules (position tracking, one legal bestmove per go, protocol, exit status)', 'against': 'session monitor + extracted rules specification', 'cases': len(res), 'disagreements': nb})
    # move lists with the moves that a token-level shortcut gets wrong: a rook or queen leaving e1 / e8 along the back rank
    # (the same coordinates as castling), real castling of both sides, a plain king step, en passant, all four promotion
    # letters: the tracked position must be the one the rules define
    TRICKY = [('6k1/5ppp/8/8/8/8/5PPP/4R2K w - - 0 1', 'e1g1'), ('6k1/5ppp/8/8/8/8/5PPP/4R2K w - - 0 1', 'e1c1 g8f8 c1a1'),
              ('4r2k/5ppp/8/8/8/8/5PPP/6K1 b - - 0 1', 'e8g8'), ('4r2k/5ppp/8/8/8/8/5PPP/6K1 b - - 0 1', 'e8c8 g1f1 c8a8'),
              ('6k1/8/8/8/8/8/8/4Q2K w - - 0 1', 'e1g1'), ('6k1/8/8/8/8/8/8/4Q2K w - - 0 1', 'e1a1 g8f8 a1h1'), ('4q2k/8/8/8/8/8/8/6K1 b - - 0 1', 'e8h8'),
              ('r3k2r/8/8/8/8/8/8/R3K2R w KQkq - 0 1', 'e1g1 e8c8'), ('r3k2r/8/8/8/8/8/8/R3K2R w KQkq - 0 1', 'e1c1 e8g8'),
              ('r3k2r/8/8/8/8/8/8/R3K2R w - - 0 1', 'e1f1 e8d8'), ('4k3/8/8/3pP3/8/8/8/4K3 w - d6 0 2', 'e5d6'),
              ('4k3/8/8/8/3pP3/8/8/4K3 b - e3 0 2', 'd4e3'), ('4k3/1P6/8/8/8/8/6p1/4K3 w - - 0 1', 'b7b8q g2g1n'),
              ('4k3/1P6/8/8/8/8/6p1/4K3 w - - 0 1', 'b7b8r g2g1b'), ('n3k3/1P6/8/8/8/8/6p1/4K2N w - - 0 1', 'b7a8b g2h1q')]
    want = run_cases(MODEL, ['specplay\t%s\t%s' % (f, m) for f, m in TRICKY], 'C07-tricky', shards=2)
    tbad = []
    def tricky_session(item):
        (f, m), w = item
        se = U.Session(binp)
        try:
            st = se.send('position fen %s moves %s' % (f, m))
            info = [l for l in st['out'] if l.startswith('info string')]
            st = se.send('.state')
            got = U.state_fen(st)
        finally:
            rc = se.close()
        if w and w.count('/') == 7 and got != w:
            return 'position fen %s moves %s: engine position %r, rules %r (%s)' % (f, m, got, w, info)
        if rc != 0:
            return 'exit status %r' % rc
        return None
    import concurrent.futures as cf4
    with cf4.ThreadPoolExecutor(max_workers=4) as ex:
        tres = list(ex.map(tricky_session, zip(TRICKY, want)))
    tbad = [t for t in tres if t]
    chk.streams.append({'name': 'move lists with back-rank moves from e1/e8 by rook or queen, castling, king steps, en passant, all promotion letters: tracked position', 'against': 'extracted rules specification (specplay)', 'cases': len(TRICKY), 'disagreements': len(tbad)})
    chk.evaluations += len(TRICKY)
    for t in tbad[:3]:
        chk.violation('UCI position tracking: ' + t, {'kind': 'input', 'what': t}, found_input=True)
    # isready WHILE a search runs: readyok must come at once, before the bestmove of a search that still has seconds to go
    BUSY = ['r1bq1rk1/pp2bppp/2n1pn2/2pp4/3P1B2/2PBPN2/PP1N1PPP/R2QK2R w KQ - 4 8', 'r4rk1/1pp1qppp/p1np1n2/2b1p1B1/2B1P1b1/P1NP1N2/1PP1QPPP/R4RK1 w - - 0 10',
            '8/2p5/3p4/KP5r/1R3p1k/8/4P1P1/8 w - - 0 1', 'r3k2r/p1ppqpb1/bn2pnp1/3PN3/1p2P3/2N2Q1p/PPPBBPPP/R3K2R w KQkq - 0 1']
    def busy_session(fen):
        se = U.Session(binp)
        probs = []
        try:
            se.send('position fen ' + fen)
            se.send('go movetime 2500', sync=False)
            time.sleep(0.7)                             # well inside the search (the writer thread is long running by now)
            t0 = time.time()
            st = se.send('isready')                     # out = everything printed before readyok
            dt = time.time() - t0
            if not st['synced']:
                probs.append('no readyok after go on %s' % fen)
            elif any('book move' in l for l in st['out']):
                pass            # answered from the book: no search is running
            elif any(l.startswith('bestmove') for l in st['out']):
                probs.append('isready sent 0.7 s into `go movetime 2500` was answered only after the bestmove (%.0f ms later) on %s' % (dt * 1000, fen))
            elif dt > 1.2:
                probs.append('isready sent 0.7 s into `go movetime 2500` was answered after %.0f ms on %s' % (dt * 1000, fen))
            st = se.send('uci')
            if 'uciok' not in st['out']:
                probs.append('uci not answered while searching')
            se.send('stop')
        finally:
            rc = se.close()
        if rc != 0:
            probs.append('exit status %r' % rc)
        return probs
    import concurrent.futures as cf3
    with cf3.ThreadPoolExecutor(max_workers=2) as ex:
        bres = list(ex.map(busy_session, BUSY if not quick else BUSY[:3]))
    bbad = [p for p in bres if p]
    chk.streams.append({'name': 'isready / uci sent while a search with seconds to go is running: answered at once, before its bestmove', 'against': 'the property', 'cases': len(bres), 'disagreements': len(bbad)})
    chk.evaluations += len(bres)
    for p in bbad[:2]:
        chk.violation('UCI while searching: %s' % p[0], {'kind': 'history', 'problems': p}, found_input=True)
    chk.evaluations += sum(len(s) for s, _, _ in res)
    chk.extra['go_commands'] = ngo
    chk.extra['sessions'] = len(res)
    chk.rule = 'sessions of 1..4 position commands (startpos/fen with 0..29 legal moves from spec-driven games), 0..2 go commands each (depth 1..3, movetime 0..300 ms), followed by stop / waiting / ucinewgame / the next command, at seeded delays; every command is followed by isready to order the transcript'
    if res:
        chk.samples += [[(s['cmd'], s['out'][-3:]) for s in res[0][0]][:14]]

def check_C14(chk, binp):
    quick = chk.tier == 'quick'
    rnd = random.Random(chk.seed)
    # parsers under catch_unwind, overflow-checked profile (this binary) and release profile
    fens = G.corpus() + G.COUNTER_FENS
    strs = G.fen_strings(chk.seed, fens, 6000 if quick else 200000)
    c1 = ['fenrt\t' + G.esc(s) for s in strs]
    i1 = run_cases(binp, c1, 'C14-fen-impl')
    m1 = run_cases(MODEL, c1, 'C14-fen-model')
    b1 = stream(chk, 'FEN reader outcome class (Ok fen / Err / panic), overflow-checked build', c1, i1, m1, 'extracted implementation model (explicit panic outcomes)')
    p1 = [i for i, r in enumerate(i1) if r is None or r == 'panic']
    okr, msg, relbin = wvlib.build_harness('release')
    chk.oblig('build of the harness in the release profile (wrapping arithmetic)', okr, msg if not okr else '')
    i1r = run_cases(relbin, c1, 'C14-fen-rel') if okr else []
    p1r = [i for i, r in enumerate(i1r) if r is None or r == 'panic']
    diffprof = [i for i, (a, b) in enumerate(zip(i1, i1r)) if a != b]
    chk.streams.append({'name': 'FEN reader: no panic, same outcome in the checked and the release profile', 'against': 'the property', 'cases': len(c1), 'disagreements': len(p1) + len(p1r) + len(diffprof)})
    # SAN strings
    sans = []
    alphabet = 'KQRBNPabcdefgh12345678x=+#O-0o ' + 'é♔'
    base = ['e4', 'Nf3', 'exd5', 'O-O', 'O-O-O', 'e8=Q', 'e8Q+', 'Rad1', 'R1d2', 'Qh4xe1#', 'bxa8=N+', 'Ke2', 'O-O+', 'dxe8=Q#']
    for _ in range(4000 if quick else 100000):
        k = rnd.random()
        if k < 0.5:
            s = rnd.choice(base); i = rnd.randrange(len(s) + 1)
            s = s[:i] + rnd.choice(alphabet) + s[i + rnd.randrange(0, 2):]
        else:
            s = ''.join(rnd.choice(alphabet) for _ in range(rnd.randrange(0, 9)))
        sans.append(s)
    sf = rnd.sample(G.corpus(), 5)
    c2 = ['san\t%s\t%s' % (rnd.choice(sf), G.esc(s)) for s in sans + base]
    i2 = run_cases(binp, c2, 'C14-san-impl')
    m2 = run_cases(MODEL, c2, 'C14-san-model')
    b2 = stream(chk, 'SAN parser + matcher outcome on mutated/random move text', c2, i2, m2, 'extracted implementation model')
    p2 = [i for i, r in enumerate(i2) if r is None or r == 'panic']
    chk.streams.append({'name': 'SAN parser: no panic', 'against': 'the property', 'cases': len(c2), 'disagreements': len(p2)})
    chk.extra['fen_outcomes'] = hist([(r or 'none').split(' ')[0] for r in i1])
    chk.extra['san_outcomes'] = hist([(r or 'none').split(' ')[0] for r in i2])
    # UCI process with malformed lines
    res = uci_sessions(chk, binp, 10 if quick else 200, True)
    nb = 0
    for i, (steps, problems, g) in enumerate(res):
        if problems:
            nb += 1
            chk.violation('UCI session with malformed lines %d: %s' % (i, problems[0]), {'kind': 'history', 'problems': problems[:5], 'transcript': [(s['cmd'], s['out'][-4:]) for s in steps][:80]}, found_input=True)
    chk.streams.append({'name': 'UCI process fed malformed lines stays alive, answers isready, keeps its position, exits 0', 'against': 'session monitor', 'cases': len(res), 'disagreements': nb})
    # malformed `go` lines (they start a search all the same, so the session monitor above leaves them out): the process must
    # stay alive, answer isready, stop, and exit 0
    GO_LINES = ['go depth', 'go depth x', 'go depth -1', 'go depth +3', 'go depth 0', 'go movetime', 'go movetime abc', 'go movetime -5', 'go movetime +7',
                'go movetime 99999999999999999999', 'go movetime 2147483648', 'go movetime -2147483649', 'go depth 18446744073709551616',
                'go depth 18446744073709551615 movetime 1', 'go wtime 1000 btime 1000', 'go infinite', 'go depth \u00e9', 'go movetime \u0661\u0662',
                'go depth 2 depth', 'go movetime 5 movetime', 'go depth 1 depth 2 depth 3', 'go\tdepth\t1', 'go depth 1 extra', 'go ' + '9' * 400,
                'go depth ' + '0' * 300 + '2', 'go movetime 1e3', 'go depth 0x10', 'go depth 1_0']
    gbad = []
    def go_session(line):
        se = U.Session(binp)
        probs = []
        try:
            # a position that is NOT in the opening book, so that go really starts a search (and its timer)
            st = se.send('position fen 4k3/8/8/8/8/8/4P3/4K3 w - - 0 1 moves e2e4')
            if not st['synced']: probs.append('no readyok after position')
            st = se.send(line)
            if not st['synced']: probs.append('no readyok after %r' % line)
            time.sleep(0.05)
            st = se.send('stop')
            if not st['synced']: probs.append('no readyok after stop (following %r)' % line)
            st = se.send('.state')
            fen = U.state_fen(st)
            if fen is None or not fen.startswith('4k3/8/8/8/4P3/8/8/4K3 b - '):
                probs.append('position lost after %r: %r' % (line, fen))
        finally:
            rc = se.close()
        if rc != 0: probs.append('exit status %r after %r' % (rc, line))
        return probs
    import concurrent.futures as cf2
    with cf2.ThreadPoolExecutor(max_workers=6) as ex:
        gres = list(ex.map(go_session, GO_LINES if not quick else GO_LINES))
    for line, probs in zip(GO_LINES, gres):
        if probs:
            gbad.append((line, probs))
    chk.streams.append({'name': 'UCI process fed malformed go lines: alive, isready answered, stop obeyed, position kept, exit 0', 'against': 'the property', 'cases': len(GO_LINES), 'disagreements': len(gbad)})
    chk.evaluations += len(GO_LINES)
    for line, probs in gbad[:3]:
        chk.violation('malformed go line %r: %s' % (line, probs[0]), {'kind': 'input', 'line': line, 'problems': probs}, found_input=True)
    # inventory of panic sites in the parsers / UCI loop vs the sites the model treats
    inv = json.load(open(f'{VERIF}/inventories/panic_sites.json'))
    exp_path = f'{VERIF}/tools/panic_sites_expected.json'
    exp = json.load(open(exp_path)) if os.path.exists(exp_path) else None
    same = exp == inv
    chk.oblig('panic-site inventory of notation.rs / uci.rs equals the list the model was written against', same, '' if same else 'inventory differs: ' + json.dumps({k: (exp or {}).get(k) for k in set(inv) ^ set(exp or {})} if exp else inv)[:500])
    if not same:
        diff = {k: [(exp or {}).get(k), inv.get(k)] for k in set(inv) | set(exp or {}) if (exp or {}).get(k) != inv.get(k)}
        chk.violation('a possible panic site appeared/disappeared in the parsers or the UCI loop (the model no longer covers the code): %s' % diff, {'kind': 'source-shape', 'diff': diff}, found_input=False)
    for c in c1 + c2:
        chk.distinct.add(c)
    chk.rule = 'grammar-derived FEN strings with 22 mutation kinds (field counts, over-long ranks, digit floods, counters around 2^64, Unicode separators/digits, multi-byte characters), random strings; mutated and random SAN text; UCI sessions with malformed lines interleaved; two build profiles'
    chk.samples += [c1[0], c2[0]]
    for i in (p1 + p1r)[:3]:
        chk.violation('FEN reader panicked on %r' % strs[i], {'kind': 'input', 'string': strs[i], 'escaped': c1[i]}, found_input=True)
    for i in diffprof[:2]:
        chk.violation('FEN reader outcome depends on the build profile for %r: %s vs %s' % (strs[i], i1[i], i1r[i]), {'kind': 'input', 'string': strs[i]}, found_input=True)
    for i in p2[:3]:
        chk.violation('SAN parser panicked on %s' % c2[i], {'kind': 'input', 'case': c2[i]}, found_input=True)
    if not (p1 or p1r or diffprof or p2 or nb):
        for i in b1[:2]:
            chk.violation('correspondence broken (fen reader) on %s: code %s model %s' % (c1[i], i1[i], m1[i]), {'kind': 'correspondence', 'case': c1[i]}, found_input=False)
        for i in b2[:2]:
            chk.violation('correspondence broken (san) on %s: code %s model %s' % (c2[i], i2[i], m2[i]), {'kind': 'correspondence', 'case': c2[i]}, found_input=False)

# ------------------------------------------------------------------ C18
def find_pq(chk, n):
    """(P, Q): P has a forced mate in 3 plies whose only mate-keeping first move leaves the defender exactly one reply,
    reaching Q (same side to move as P, mate in 1): if Q is wrongly remembered as a repetition the mate in P cannot be seen"""
    rnd = random.Random(chk.seed + 18)
    wins, _ = mate_positions(chk, 'C18', 700 if chk.tier == 'quick' else 6000, 3)
    out = []
    for f, d, keep in wins:
        if d != 3 or len(keep) != 1:
            continue
        (mv, succ), = keep.items()
        rep = spec_one('specgen\t' + succ, 'C18-rep')
        if not rep or ';' in rep:
            continue
        q = rep.split('=')[1]
        out.append((f, q))
        if len(out) >= n:
            break
    return out

def c18_session(binp, pre, P, depth):
    S = U.Session(binp)
    for c in pre:
        S.send(c, settle=0.05 if c.startswith('go') else 0)
    S.send('position fen ' + P)
    S.send('go depth %d' % depth)
    got = S.wait_output(lambda l: l.startswith('bestmove'), 120.0)
    S.close()
    lines = [l for st in S.steps for l in st['out']]
    scores = [float(l.split(' ')[3]) for l in got if l.startswith('info score cp')]
    bm = [l for l in got if l.startswith('bestmove')]
    return (max(scores) if scores else None), (bm[-1] if bm else None), [(s['cmd'], s['out'][-3:]) for s in S.steps]

def check_C18(chk, binp):
    quick = chk.tier == 'quick'
    pq = find_pq(chk, 3 if quick else 20)
    chk.extra['pq_pairs'] = pq
    bad = []
    n = 0
    for P, Q in pq:
        histories = {
            'finished-then-stop': ['position fen ' + Q, 'go depth 2', 'stop', 'ucinewgame'],
            'collected-by-position': ['position fen ' + Q, 'go depth 2', 'position fen ' + Q, 'ucinewgame'],
            'collected-by-go': ['position fen ' + Q, 'go depth 2', 'go depth 1', 'stop', 'ucinewgame'],
            'running': ['position fen ' + Q, 'go depth 2', 'ucinewgame'],
            'two-games': ['position fen ' + Q, 'go depth 2', 'stop', 'ucinewgame', 'position fen ' + Q, 'go depth 1', 'stop', 'ucinewgame'],
        }
        fresh_score, fresh_bm, _ = c18_session(binp, [], P, 4)
        for name, pre in histories.items():
            n += 1
            sc, bm, tr = c18_session(binp, pre, P, 4)
            chk.distinct.add((P, name))
            # a fresh process sees the forced mate (winning terminal evaluation); so must the session after ucinewgame
            if fresh_score is None or fresh_score < 10000:
                chk.notes.append('fresh process does not report the mate for %s (score %s): pair skipped' % (P, fresh_score))
                break
            if sc is None or sc < 10000:
                bad.append((P, Q, name, sc, bm, tr))
    # the previous game ended with searches of TERMINAL roots only (the GUI sent go after the mating move): such searches
    # record the position but store nothing in the table; after ucinewgame the mate in one of Q, whose mating move leads into
    # that recorded position T, must be found as in a fresh process
    for P, Q in pq:
        r = spec_one('specmate\t%s\t1' % Q, 'C18-t')
        if not r or not r[0].isdigit() or '=' not in r:
            continue
        T = r.split(' ', 1)[1].split(';')[0].split('=')[1].rsplit('@', 1)[0]
        fresh_score, fresh_bm, _ = c18_session(binp, [], Q, 2)
        if fresh_score is None or fresh_score < 10000:
            continue
        for name, pre in {'terminal-root-only': ['position fen ' + T, 'go depth 2', 'ucinewgame'],
                          'terminal-root-twice': ['position fen ' + T, 'go depth 1', 'stop', 'position fen ' + T, 'go depth 2', 'stop', 'ucinewgame']}.items():
            n += 1
            sc, bm, tr = c18_session(binp, pre, Q, 2)
            chk.distinct.add((Q, name))
            if sc is None or sc < 10000:
                bad.append((Q, T, name, sc, bm, tr))
    chk.streams.append({'name': 'after ucinewgame the mate-in-2 of P is reported as in a fresh process although Q was searched in the previous game', 'against': 'a fresh process on the same position', 'cases': n, 'disagreements': len(bad)})
    chk.evaluations += n
    chk.rule = 'solver-found pairs (P, Q): P mate in 3 plies through Q only; histories before ucinewgame: search of Q finished+stop / collected by position / collected by go / still running / two previous games; then P searched at depth 4 and compared with a fresh process; and histories that searched only the TERMINAL position T after the mating move of Q, then Q searched at depth 2'
    chk.samples += [{'P': P, 'Q': Q} for P, Q in pq[:2]]
    for P, Q, name, sc, bm, tr in bad[:3]:
        chk.violation('history %s: after ucinewgame the search of %s no longer sees the mate (score %s, %s); Q=%s was searched in the previous game' % (name, P, sc, bm, Q),
                      {'kind': 'history', 'P': P, 'Q': Q, 'history': name, 'transcript': tr}, found_input=True)

# ------------------------------------------------------------------ C16
def book_games_raw(repo='/repo'):
    """the raw whitespace tokens of every movetext chunk (as the build script sees them)"""
    games = []
    bd = os.path.join(repo, 'book')
    for fn in sorted(os.listdir(bd)):
        p = os.path.join(bd, fn)
        if os.path.isfile(p):
            txt = open(p, encoding='utf-8', errors='replace').read()
            for chunk in txt.strip().split('\n\n'):
                if chunk.startswith('1.'):
                    games.append(chunk.split()[:40])
    return games

def book_games(repo='/repo'):
    games = []
    bd = os.path.join(repo, 'book')
    for fn in sorted(os.listdir(bd)):
        p = os.path.join(bd, fn)
        if not os.path.isfile(p):
            continue
        txt = open(p, encoding='utf-8', errors='replace').read()
        for chunk in txt.strip().split('\n\n'):
            if not chunk.startswith('1.'):
                continue
            toks = []
            for t in chunk.split():
                if t in ('1/2-1/2', '1-0', '0-1') or t.endswith('.'):
                    continue
                if '.' in t:
                    t = t[t.index('.') + 1:]
                toks.append(t)
            games.append(toks[:10])
    return games

def check_C16(chk, binp):
    quick = chk.tier == 'quick'
    rnd = random.Random(chk.seed)
    games = book_games()
    chk.extra['games_in_book'] = len(games)
    # quick: a seeded sample PLUS every game whose first ten plies contain a check (pins: SAN may then omit a disambiguation
    # that looks necessary) or a disambiguated piece move - the token classes a parser shortcut gets wrong
    def special(g):
        return any('+' in t or '#' in t for t in g) or any(re.match(r'^[NBRQK][a-h1-8]x?[a-h][1-8]', t) for t in g)
    sel = games if not quick else rnd.sample(games, min(len(games), 400)) + [g for g in games if special(g)]
    # resolve every (position, token) by the rules (SanSpec), breadth first over the trie of game prefixes
    succ = {}     # (fen, token) -> (move, next fen)
    frontier = {G.START}
    prefix_pos = {(): G.START}
    for ply in range(10):
        need = set()
        for g in sel:
            if len(g) > ply:
                key = tuple(g[:ply])
                if key in prefix_pos:
                    need.add((prefix_pos[key], g[ply]))
        need = sorted(x for x in need if x not in succ)
        res = run_cases(MODEL, ['specsan\t%s\t%s' % (f, t) for f, t in need], 'C16-san%d' % ply)
        for (f, t), r in zip(need, res):
            succ[(f, t)] = r
        for g in sel:
            if len(g) > ply:
                key = tuple(g[:ply])
                if key in prefix_pos:
                    r = succ.get((prefix_pos[key], g[ply]))
                    if r and '=' in r:
                        prefix_pos[tuple(g[:ply + 1])] = r.split('=')[1]
    unresolved = [(f, t, r) for (f, t), r in succ.items() if not r or '=' not in r]
    # expected offers per rule key, from ALL games when thorough; in quick the sampled games give a lower bound (subset check)
    pos_moves = {}
    for g in sel:
        for ply in range(len(g)):
            key = tuple(g[:ply])
            if key in prefix_pos and (prefix_pos[key], g[ply]) in succ and '=' in (succ[(prefix_pos[key], g[ply])] or ''):
                pos_moves.setdefault(prefix_pos[key], set()).add(succ[(prefix_pos[key], g[ply])].split('=')[0])
    fens = sorted(pos_moves)
    keys = run_cases(MODEL, ['rulekey\t' + f for f in fens], 'C16-rk')
    bykey = {}
    for f, k in zip(fens, keys):
        bykey.setdefault(k, set()).update(pos_moves[f])
    offers = run_cases(binp, ['book\t' + f for f in fens], 'C16-book')
    legal = run_cases(MODEL, ['specgen\t' + f for f in fens], 'C16-legal')
    bad = []
    for f, k, o, lg in zip(fens, keys, offers, legal):
        offered = set() if o in (None, 'none') else set(o.split(';'))
        legalset = set(x.split('=')[0].rsplit('/', 6)[0] for x in (lg or '').split(';') if x)
        exp = bykey[k]
        if not offered <= legalset:
            bad.append((f, 'offers a move that is not legal: %s' % sorted(offered - legalset)))
        elif quick and not exp <= offered:
            bad.append((f, 'recorded move not offered: %s' % sorted(exp - offered)))
        elif not quick and exp != offered:
            bad.append((f, 'offered %s, recorded %s' % (sorted(offered), sorted(exp))))
    chk.streams.append({'name': 'book offers on every position of the first ten plies of the %s games' % ('sampled' if quick else 'all'), 'against': 'recorded moves resolved by the extracted SanSpec/Rules, positions identified by the rule key', 'cases': len(fens), 'disagreements': len(bad)})
    # variants: same placement reached with other castling rights / ep state / by other histories; only legal moves may be offered
    var = []
    for f in rnd.sample(fens, min(len(fens), 300 if quick else 5000)):
        p = f.split(' ')
        if p[2] != '-':
            for r in rights_subsets(p[2])[:6]:
                var.append(' '.join([p[0], p[1], r, '-'] + p[4:]))
        if p[3] != '-':
            var.append(' '.join(p[:3] + ['-'] + p[4:]))
    var = G.filter_legal(list(dict.fromkeys(var)), 'C16-lp')
    vo = run_cases(binp, ['book\t' + f for f in var], 'C16-vbook')
    vl = run_cases(MODEL, ['specgen\t' + f for f in var], 'C16-vlegal')
    vbad = []
    for f, o, lg in zip(var, vo, vl):
        offered = set() if o in (None, 'none') else set(o.split(';'))
        legalset = set(x.split('=')[0].rsplit('/', 6)[0] for x in (lg or '').split(';') if x)
        if not offered <= legalset:
            vbad.append((f, 'offers a move that is not legal there: %s' % sorted(offered - legalset)))
    chk.streams.append({'name': 'book positions with other castling-right / en-passant state: only legal moves offered', 'against': 'extracted rules specification', 'cases': len(var), 'disagreements': len(vbad)})
    # the SAME position with other move counters (reached later in a game, by another history): the counters are not part of the
    # position, so the book must offer exactly what it offers for the position as it occurs in the games
    cv = []; cvo = []
    for f, o in rnd.sample(list(zip(fens, offers)), min(len(fens), 150 if quick else 3000)):
        p = f.split(' ')
        for h, fm in ((0, 6), (rnd.randrange(0, 60), rnd.randrange(6, 120)), (int(p[4]), int(p[5]) + rnd.choice([1, 5, 30]))):
            cv.append(' '.join(p[:4] + [str(h), str(fm)])); cvo.append(o)
    co = run_cases(binp, ['book\t' + f for f in cv], 'C16-cbook')
    cbad = [(f, o, e) for f, o, e in zip(cv, co, cvo) if set((o or 'none').split(';')) != set((e or 'none').split(';'))]
    chk.streams.append({'name': 'book positions with other move counters: the same offers', 'against': 'the offers for the position as it occurs in the games (the counters are not part of the position)', 'cases': len(cv), 'disagreements': len(cbad)})
    # the extracted model of the book builder (tokenizer, SAN parse, FIRST matching legal move, ten plies) on the same games
    raw = book_games_raw()
    rsel = raw if not quick else random.Random(chk.seed).sample(raw, min(len(raw), 400)) + [g for g in raw if any('+' in t for t in g[:16])][:300]
    me = run_cases(MODEL, ['bookgame\t' + G.esc(' '.join(g)) for g in rsel], 'C16-model')
    mpos = {}
    merr = [g for g, r in zip(rsel, me) if r is None or r == 'error' or '!HASH' in (r or '')]
    for r in me:
        if r and r != 'error':
            for it in r.split(';'):
                if '=' in it:
                    f, mv = it.split('=')
                    mpos.setdefault(f, set()).add(mv)
    mfens = sorted(mpos)
    mkeys = run_cases(MODEL, ['rulekey\t' + f for f in mfens], 'C16-mrk')
    mby = {}
    for f, k in zip(mfens, mkeys):
        mby.setdefault(k, set()).update(mpos[f])
    mbad = [k for k in mby if k in bykey and (mby[k] != bykey[k] if not quick else False)]
    moff = dict(zip(fens, offers))
    mbad2 = []
    for f, k in zip(mfens, mkeys):
        o = moff.get(f)
        if o is None:
            continue
        offered = set() if o == 'none' else set(o.split(';'))
        if (not quick and offered != mby[k]) or (quick and not mpos[f] <= offered):
            mbad2.append((f, sorted(offered), sorted(mby[k])))
    chk.streams.append({'name': 'book entries recorded by the extracted model of the builder (Book.game_entries) vs the real book offers', 'against': 'extracted implementation model', 'cases': len(rsel), 'disagreements': len(merr) + len(mbad2)})
    chk.evaluations += len(fens) + len(var) + len(rsel) + len(cv)
    for f, o, e in cbad[:3]:
        chk.violation('the book offers %s for %s but %s for the same position with the counters of the games' % (o, f, e), {'kind': 'input', 'fen': f, 'offered': o, 'offered_with_game_counters': e}, found_input=True)
    chk.extra['unresolved_tokens'] = unresolved[:5]
    chk.extra['distinct_book_positions'] = len(fens)
    chk.extra['exhaustive'] = not quick
    for f in fens:
        chk.distinct.add(f)
    chk.rule = 'all games of book/ (thorough) or a seeded sample of 500 (quick): movetext tokenised as the build script does, each token resolved by the independent SanSpec over the rules; every position of the first ten plies looked up in the real book; variants of those positions with fewer castling rights / without the en-passant target / with other move counters'
    chk.samples += [{'fen': fens[len(fens) // 2], 'offered': offers[len(fens) // 2], 'recorded': sorted(bykey[keys[len(fens) // 2]])}]
    if unresolved:
        chk.violation('book token not an admissible spelling of exactly one legal move: %s' % (unresolved[0],), {'kind': 'input', 'unresolved': unresolved[:5]}, found_input=True)
    for f, msg in (bad + vbad)[:4]:
        chk.violation('book on %s: %s' % (f, msg), {'kind': 'input', 'fen': f, 'what': msg}, found_input=True)
    if not (bad or vbad or unresolved):
        for g in merr[:2]:
            chk.violation('correspondence broken (book builder model fails on a game the build accepted): %s' % ' '.join(g[:24]), {'kind': 'correspondence', 'game': g}, found_input=False)
        for f, a, b in mbad2[:2]:
            chk.violation('correspondence broken (book): on %s the engine offers %s, the builder model records %s' % (f, a, b), {'kind': 'correspondence', 'fen': f}, found_input=False)
