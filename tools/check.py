#!/usr/bin/env python3
"""./check <Cxx> --tier quick|thorough : regenerate, prove, correspond, verdict (DESIGN.md section 4)."""
import sys, os, argparse, json, time, re
sys.path.insert(0, os.path.dirname(os.path.abspath(__file__)))
import wvlib
from wvlib import Check, finish, regenerate, coq_make, theorem_names, forbidden_scan, print_assumptions, build_model, build_harness, VERIF, COQ
import streams

TRUSTED = [
    'Coq 8.16.1 kernel (coqc; vm_compute used for finite cores; no native_compute)',
    'tools/extract.py (translator: constants and tables re-read from /repo on every run)',
    'Coq extraction with ExtrOcamlBasic only; OCaml 4.13.1; ocaml/model_run.ml driver (parsing/printing glue, independent FEN reader for the spec)',
    'harness/ (wv_harness: prints observables of the real code); tools/*.py (generators, differ)',
    'rustc nightly, std, regex, rand, rand_chacha, rayon, serde, ciborium, lazy_static, num_enum (modelled, not verified)',
]

def proof_step(chk, prop):
    """regenerate -> make props/Cxx.vo -> Print Assumptions allow-list -> forbidden-construct scan"""
    ok, msg = regenerate()
    chk.oblig('translator: regenerate coq/gen/*.v and inventories from /repo', ok, msg)
    if not ok:
        chk.violation('translator cannot read the constants it needs from /repo: ' + msg,
                      {'broken': 'tools/extract.py', 'detail': msg}, found_input=False)
        return False
    registered = wvlib.prop_files(prop)
    if not registered:
        chk.notes.append('no props/%s.v yet: correspondence only' % prop)
        return True
    targets = [x + 'o' for x in registered]
    if os.path.exists(f'{COQ}/props/Pins.v'):
        pass
    ok, log, dt = coq_make(targets)
    names = theorem_names(prop)
    if not ok:
        m = re.search(r'File "([^"]+)", line (\d+)', log)
        where = '%s:%s' % (m.group(1), m.group(2)) if m else 'unknown'
        for n in names:
            chk.oblig(n, False, 'build failed at ' + where)
        chk.violation('proof obligation no longer checks: make props/%s.vo failed at %s: %s' % (prop, where, log[-800:]),
                      {'broken_theorems_of': 'props/%s.v' % prop, 'first_error_at': where, 'log_tail': log[-1500:]}, found_input=False)
        return False
    res, out = print_assumptions(prop, names)
    if res is None:
        chk.oblig('Print Assumptions', False, out)
        chk.violation('Print Assumptions query failed', {'log_tail': out[-1500:]}, found_input=False)
        return False
    allpass = True
    for n in names:
        ax = res.get(n)
        allowed = wvlib.ALLOWED_AXIOMS.get(n, [])
        good = ax is not None and all(a in allowed for a in ax)
        chk.oblig(n, good, 'axioms: ' + (', '.join(ax) if ax else 'none (closed under the global context)') if ax is not None else 'not found')
        if not good:
            allpass = False
            chk.violation('theorem %s depends on axioms outside its allow-list: %s' % (n, ax), {'theorem': n, 'axioms': ax}, found_input=False)
    hits = forbidden_scan()
    chk.oblig('no Admitted/admit/Axiom/Parameter/... anywhere in coq/', not hits, '; '.join(hits[:10]))
    if hits:
        allpass = False
        chk.violation('forbidden construct in the development: ' + '; '.join(hits[:5]), {'hits': hits}, found_input=False)
    chk.extra['proof_build_s'] = round(dt, 1)
    return allpass

def main():
    ap = argparse.ArgumentParser()
    ap.add_argument('prop')
    ap.add_argument('--tier', default=os.environ.get('VERIF_TIER', 'quick'))
    ap.add_argument('--seed', type=int, default=int(os.environ.get('VERIF_SEED', '20260929')))
    ap.add_argument('--replay')
    ap.add_argument('--no-proof', action='store_true')
    a = ap.parse_args()
    prop = a.prop.upper()
    chk = Check(prop, a.tier, a.seed)
    chk.trusted = TRUSTED
    if not a.no_proof:
        proof_step(chk, prop)
    else:
        regenerate()
    ok, msg = build_model()
    chk.oblig('extraction of the model to OCaml and build of model_run', ok, msg)
    if not ok:
        chk.violation('model extraction/build failed: ' + msg, {'log_tail': msg}, found_input=False)
        finish(chk)
    prof = streams.PROFILE.get(prop, 'chk')
    ok, msg, binp = build_harness(prof)
    chk.oblig('build of the harness against /repo working tree (--cfg weechess_verif, profile %s)' % prof, ok, msg if not ok else '')
    if not ok:
        chk.violation('harness does not build against /repo: ' + msg[-1500:], {'log_tail': msg[-3000:]}, found_input=False)
        finish(chk)
    # the translator's reading of the sources against the constants of the compiled code
    try:
        cr = wvlib.run_cases(binp, ['consts'], prop + '-consts', shards=1)[0] or ''
        got = dict(x.split('=', 1) for x in cr.split(';') if '=' in x)
        tc = json.load(open(f'{VERIF}/inventories/consts.json'))
        core = tc['Consts']; ev = tc['EvalConsts']; tx = tc['TextConsts']
        exp = {'rank_masks': ','.join(map(str, core['rank_masks'])), 'file_masks': ','.join(map(str, core['file_masks'])),
               'castle_path': ','.join(map(str, core['castle_path'])), 'castle_check': ','.join(map(str, core['castle_check'])),
               'king_origins': ','.join(map(str, core['king_origins'])), 'castle_dests': ','.join(map(str, core['castle_dests'])),
               'default_fen': tx['default_fen']}
        diffs = {k: [exp[k], got.get(k)] for k in exp if got.get(k) != exp[k]}
        wg = [float(x) for x in got.get('worths', '').split(',') if x]
        we = [float(x) for x in ev['worths']]
        if wg != we:
            diffs['worths'] = [we, wg]
        chk.oblig('translator: constants read from the sources equal the constants of the compiled code', not diffs, json.dumps(diffs)[:400])
        if diffs:
            chk.violation('the translator mis-reads a constant (tie broken): %s' % json.dumps(diffs)[:400], {'kind': 'translator', 'diffs': diffs}, found_input=False)
    except Exception as e:
        chk.oblig('translator: constants read from the sources equal the constants of the compiled code', False, repr(e))
        chk.violation('constant comparison failed: %r' % e, {'kind': 'translator'}, found_input=False)
    # source-shape inventories the model's assumptions rest on
    for invname, props in (('nondeterminism', ('C19',)), ('board_mutators', ('C10',)), ('control_shape', ('C04', 'C07')), ('lock_shape', ('C15', 'C03', 'C06', 'C19'))):
        if prop in props:
            inv = json.load(open(f'{VERIF}/inventories/{invname}.json'))
            ep = f'{VERIF}/tools/{invname}_expected.json'
            expi = json.load(open(ep)) if os.path.exists(ep) else None
            same = inv == expi
            chk.oblig('source-shape inventory %s equals the one the model was written against' % invname, same, '' if same else json.dumps({'expected': expi, 'now': inv})[:500])
            if not same:
                chk.violation('source shape changed (%s): the model no longer covers the code: %s' % (invname, json.dumps({'expected': expi, 'now': inv})[:400]), {'kind': 'source-shape', 'inventory': invname, 'expected': expi, 'now': inv}, found_input=False)
    fn = getattr(streams, 'check_' + prop, None)
    if fn is None:
        chk.notes.append('no correspondence streams registered for ' + prop)
    else:
        fn(chk, binp)
    if a.tier == 'thorough' and os.path.exists(f'{COQ}/props/{prop}.vo') and not a.no_proof:
        streams.coqchk_step(chk, prop)
    finish(chk)

if __name__ == '__main__':
    main()
