#!/bin/bash
# confirm a seeded change in its scratch worktree: suite passes with the change; demo fails with it and passes without it
# usage: confirm_seeded.sh <worktree> <crate-dir-for-demo.rs | sh>
WT=$1; CR=$2
cd $WT || exit 2
export CARGO_TARGET_DIR=$WT/target CARGO_NET_OFFLINE=true
git apply --check -R _mutation/patch.diff 2>/dev/null || git apply _mutation/patch.diff
echo "== suite with the change"; cargo test --workspace --offline 2>&1 | grep -E "^test result|FAILED|panicked" | head -5
if [ "$CR" = "sh" ]; then
  echo "== demo with the change"; bash _mutation/demo.sh > /dev/null 2>&1; echo "exit $?"
  git apply -R _mutation/patch.diff
  echo "== demo without the change"; bash _mutation/demo.sh > /dev/null 2>&1; echo "exit $?"
  git apply _mutation/patch.diff
else
  mkdir -p $CR/tests && cp _mutation/demo.rs $CR/tests/demo.rs
  P=$(grep -m1 '^name' $CR/Cargo.toml | sed 's/.*"\(.*\)"/\1/')
  echo "== demo with the change"; cargo test --offline -p $P --test demo 2>&1 | grep -E "^test result" | head -2
  git apply -R _mutation/patch.diff
  echo "== demo without the change"; cargo test --offline -p $P --test demo 2>&1 | grep -E "^test result" | head -2
  git apply _mutation/patch.diff
  rm -f $CR/tests/demo.rs; rmdir $CR/tests 2>/dev/null
fi
