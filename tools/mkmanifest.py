#!/usr/bin/env python3
"""writes /verif/MANIFEST.json from the table below (kept in one place so it stays valid)"""
import json, os

VERIF = '/verif'
ALL = ['C%02d' % i for i in range(1, 21)]

# property -> (level category, technique, level text, level note, design ref)
CLAIMS = {}

def claim(pid, cat, technique, text, note, ref):
    CLAIMS[pid] = dict(cat=cat, technique=technique, text=text, note=note, ref=ref)

TB = ('Trusted: Coq 8.16.1 kernel (vm_compute for finite cores), tools/extract.py, extraction (ExtrOcamlBasic only) + ocaml/model_run.ml, '
      'the Rust harness, rustc/std and third-party crates (modelled, not verified). ')

exec(open(os.path.join(VERIF, 'tools', 'claims.py')).read())

NOT_APPLICABLE = {}
for p in ALL:
    if p not in CLAIMS:
        NOT_APPLICABLE[p] = 'not yet claimed: the Coq model/theorems and the correspondence check for this property are still being built (see DESIGN.md section 6 for the planned theorem); no check is registered until it runs clean'

m = {
    'version': 1,
    'setup_cmd': './setup.sh',
    'hooks': {
        'guard': 'weechess_verif',
        'enable': 'RUSTFLAGS="--cfg weechess_verif" cargo build (the harness crate /verif/harness depends on /repo by path and is built this way on every check)',
        'baseline_off_cmd': 'cd /repo && cargo test --workspace --no-fail-fast --offline',
        'source_commits': [l.strip() for l in open(os.path.join(VERIF, 'HOOK_COMMITS.txt'))] if os.path.exists(os.path.join(VERIF, 'HOOK_COMMITS.txt')) else [],
        'add_only': True,
    },
    'engines': [
        {'name': 'coq-model', 'path': 'coq/', 'serves_properties': sorted(CLAIMS), 'kind_free_text': 'Coq 8.16 development: executable model of the Rust code (coq/model), rules specification (coq/spec), lemmas (coq/proofs), pinned property theorems (coq/props), constants regenerated from /repo (coq/gen)'},
        {'name': 'correspondence', 'path': 'tools/ harness/ ocaml/', 'serves_properties': sorted(CLAIMS), 'kind_free_text': 'differential run of the real code (Rust harness built against /repo) against the OCaml extraction of the Coq model and of the rules specification on generated inputs/histories'},
    ],
    'checks': [],
    'notes': 'Technique family: machine-checked proof in Coq. Every check = regenerate constants from /repo, rebuild the property theorems (full .vo), Print Assumptions allow-list, forbidden-construct scan, then correspondence of the real code against the extracted model and the extracted rules specification. See DESIGN.md.',
    'not_applicable': [{'property_id': p, 'reason': r} for p, r in sorted(NOT_APPLICABLE.items())],
}
for p in sorted(CLAIMS):
    c = CLAIMS[p]
    m['checks'].append({
        'property_id': p,
        'quick_cmd': './check %s --tier quick' % p,
        'thorough_cmd': './check %s --tier thorough' % p,
        'evidence_file': '/verif/evidence/%s.json' % p,
        'replay_cmd_template': './check %s --replay {path}' % p,
        'engine': 'coq-model',
        'level_claimed': {'category': c['cat'], 'text': c['text'], 'design_ref': c['ref']},
        'level_note': c['note'],
        'technique': c['technique'],
    })
json.dump(m, open(os.path.join(VERIF, 'MANIFEST.json'), 'w'), indent=1)
print('MANIFEST.json: %d checks, %d not_applicable' % (len(m['checks']), len(m['not_applicable'])))
