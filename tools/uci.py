"""Process-level UCI sessions: drive `wv_harness uci` (the real Client::exec loop) with a command history,
synchronise with `isready`/`readyok` after every command (the command loop is single-threaded, so `readyok`
means every earlier command has been handled, including the bestmove forced out by a collecting command),
and return the transcript as a list of steps."""
import subprocess, threading, time, queue, os

class Session:
    def __init__(self, binary, env=None):
        self.p = subprocess.Popen([binary, 'uci'], stdin=subprocess.PIPE, stdout=subprocess.PIPE, stderr=subprocess.PIPE,
                                  text=True, encoding='utf-8', errors='replace', bufsize=1, env=env)
        self.out = queue.Queue(); self.err = queue.Queue()
        self.t_out = threading.Thread(target=self._pump, args=(self.p.stdout, self.out), daemon=True)
        self.t_err = threading.Thread(target=self._pump, args=(self.p.stderr, self.err), daemon=True)
        self.t_out.start(); self.t_err.start()
        self.steps = []

    @staticmethod
    def _pump(f, q):
        try:
            for line in f:
                q.put((time.time(), line.rstrip('\n')))
        except Exception:
            pass
        q.put((time.time(), None))

    def alive(self):
        return self.p.poll() is None

    def _drain(self, q):
        out = []
        while True:
            try:
                t, l = q.get_nowait()
            except queue.Empty:
                break
            if l is not None:
                out.append(l)
        return out

    def send(self, line, sync=True, wait_ready=60.0, settle=0.0):
        """send one command; when sync, follow with isready and collect everything up to its readyok"""
        step = {'cmd': line, 'out': [], 'err': [], 'synced': None}
        try:
            self.p.stdin.write(line + '\n'); self.p.stdin.flush()
            if settle:
                time.sleep(settle)
            if sync and line.split()[:1] != ['isready']:      # `isready ...` is its own synchronisation point
                self.p.stdin.write('isready\n'); self.p.stdin.flush()
        except (BrokenPipeError, OSError):
            step['synced'] = False
            self.steps.append(step)
            return step
        if sync:
            deadline = time.time() + wait_ready
            ok = False
            while time.time() < deadline:
                try:
                    t, l = self.out.get(timeout=0.05)
                except queue.Empty:
                    if not self.alive():
                        break
                    continue
                if l is None:
                    break
                if l == 'readyok':
                    ok = True
                    break
                step['out'].append(l)
            step['synced'] = ok
        time.sleep(0.005)
        step['err'] = self._drain(self.err)
        if line.strip() == '.state':
            # the board print goes to stderr through another pipe: wait until the closing URL line has arrived
            deadline = time.time() + 3.0
            while time.time() < deadline and not any(l.startswith('https://') for l in step['err']):
                time.sleep(0.01)
                step['err'] += self._drain(self.err)
        self.steps.append(step)
        return step

    def wait_output(self, pred, timeout):
        """wait for an unsolicited stdout line (e.g. the bestmove of a depth-limited search)"""
        got = []
        deadline = time.time() + timeout
        while time.time() < deadline:
            try:
                t, l = self.out.get(timeout=0.05)
            except queue.Empty:
                if not self.alive():
                    break
                continue
            if l is None:
                break
            got.append(l)
            if pred(l):
                break
        self.steps.append({'cmd': '(wait)', 'out': got, 'err': self._drain(self.err), 'synced': None})
        return got

    def close(self, quit_cmd=True, timeout=60):
        try:
            if quit_cmd:
                self.p.stdin.write('quit\n'); self.p.stdin.flush()
            self.p.stdin.close()
        except Exception:
            pass
        try:
            rc = self.p.wait(timeout=timeout)
        except subprocess.TimeoutExpired:
            self.p.kill(); rc = None
        time.sleep(0.01)
        tail = self._drain(self.out)
        self.steps.append({'cmd': '(exit)', 'out': tail, 'err': self._drain(self.err), 'synced': None, 'rc': rc})
        return rc

def state_fen(step):
    """the FEN printed by `.state` on stderr"""
    for l in step['err']:
        l = l.strip()
        if l.count('/') == 7 and (' w ' in l or ' b ' in l) and not l.startswith('http'):
            return l
    return None
