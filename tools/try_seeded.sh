#!/bin/bash
# try_seeded.sh <id> <demo crate dir | sh> <check> [<check> ...] : copy the agent's deliverables, confirm them in the scratch
# worktree, apply the change to /repo, run the given checks, undo the change
ID=$1; CR=$2; shift 2
mkdir -p /verif/seeded/$ID
cp /tmp/wt-$ID/_mutation/patch.diff /tmp/wt-$ID/_mutation/meta.json /verif/seeded/$ID/
cp /tmp/wt-$ID/_mutation/demo.* /verif/seeded/$ID/ 2>/dev/null
(/verif/tools/confirm_seeded.sh /tmp/wt-$ID $CR > /var/tmp/conf-$ID.log 2>&1 &)
git -C /repo apply /verif/seeded/$ID/patch.diff || { echo "PATCH DOES NOT APPLY"; exit 1; }
for c in "$@"; do
  echo "--- $c against seeded/$ID"
  (cd /verif && timeout 1800 ./check $c --tier quick --no-proof | tail -3)
done
git -C /repo checkout -- .
git -C /repo status --short | head -3
