#!/bin/bash
# try_seeded.sh <id> <demo crate dir | sh> <check> [<check> ...] : copy the agent's deliverables, confirm them in the scratch
# worktree, apply the change to /repo, run the given checks, undo the change
ID=$1; CR=$2; shift 2
WT=${WT:-/tmp/wt-$ID}; SD=${SD:-$ID}
mkdir -p /verif/seeded/$SD
cp $WT/_mutation/patch.diff $WT/_mutation/meta.json /verif/seeded/$SD/
cp $WT/_mutation/demo.* /verif/seeded/$SD/ 2>/dev/null
(/verif/tools/confirm_seeded.sh $WT $CR > /var/tmp/conf-$SD.log 2>&1 &)
git -C /repo apply /verif/seeded/$SD/patch.diff || { echo "PATCH DOES NOT APPLY"; exit 1; }
for c in "$@"; do
  echo "--- $c against seeded/$ID"
  (cd /verif && timeout 1800 ./check $c --tier quick --no-proof | tail -3)
done
git -C /repo checkout -- .
git -C /repo status --short | head -3
